package main

import (
	"fmt"
	"go/token"
	"go/types"
	"sort"
	"strings"

	"golang.org/x/tools/go/ssa"
)

// Rules written after the ninth seeding round (variants O/P of C04, C06, C11, C12, C13, C15,
// C16, C17, C18, C19).

// ruleHelloParametersFromDefaults (C04): with hello verification the first ClientHello of a
// DTLS 1.2 handshake is covered by no Finished message; what a ClientHello's extensions set in
// the handshake state is therefore derived again, from the defaults, for the ClientHello that
// echoes the cookie. In the DTLS 1.2 server, every state field that is stored inside the loop
// over a ClientHello's extensions (so: only when the extension is there) is also stored outside
// that loop in the same function - a reset before it, or a commit of a local after it. A field
// set only inside the loop keeps what an altered first ClientHello put there.
func ruleHelloParametersFromDefaults(c *Ctx, r *Report) {
	const rule = "hello-parameters-from-defaults"
	// reviewed: not a negotiated parameter
	exempt := map[string]string{
		"RemoteSupportsRenegotiation": "only ever set, never cleared, in the ClientHello parser as well (the SCSV); it decides whether an empty renegotiation_info is echoed, no negotiated parameter depends on it",
	}
	n, nLoops := 0, 0
	for _, fn := range c.fnsOfPkg(pkgF12) {
		for _, l := range naturalLoops(fn) {
			overExtensions := false
			for b := range l.blocks {
				for _, in := range b.Instrs {
					if ia, ok := in.(*ssa.IndexAddr); ok {
						if o, f, _, okF := fieldLoad(ia.X); okF && f == "Extensions" && strings.HasSuffix(o, "MessageClientHello") {
							overExtensions = true
						}
					}
				}
			}
			if !overExtensions {
				continue
			}
			nLoops++
			r.Sites += len(fn.Blocks)
			type fieldKey struct{ owner, field string }
			// the state fields a block stores to, itself or in a helper of the package it calls
			storesOf := func(b *ssa.BasicBlock) map[fieldKey]ssa.Instruction {
				out := map[fieldKey]ssa.Instruction{}
				var scan func(instrs []ssa.Instruction, at ssa.Instruction, d int)
				scan = func(instrs []ssa.Instruction, at ssa.Instruction, d int) {
					for _, in := range instrs {
						pos := at
						if pos == nil {
							pos = in
						}
						switch x := in.(type) {
						case *ssa.Store:
							if o, f, _, okF := fieldOfAddr(x.Addr); okF && strings.HasPrefix(o, "internal/state.") {
								out[fieldKey{o, f}] = pos
							}
						case *ssa.Call:
							if g := x.Call.StaticCallee(); g != nil && g.Pkg == fn.Pkg && len(g.Blocks) > 0 && d < 2 {
								for _, gb := range g.Blocks {
									scan(gb.Instrs, pos, d+1)
								}
							}
						}
					}
				}
				scan(b.Instrs, nil, 0)
				return out
			}
			inside := map[fieldKey]ssa.Instruction{}
			outsideSet := map[fieldKey]bool{}
			for _, b := range fn.Blocks {
				for k, at := range storesOf(b) {
					if l.blocks[b] {
						inside[k] = at
					} else {
						outsideSet[k] = true
					}
				}
			}
			var keys []fieldKey
			for k := range inside {
				keys = append(keys, k)
			}
			sort.Slice(keys, func(i, j int) bool { return keys[i].field < keys[j].field })
			for _, k := range keys {
				st := inside[k]
				key := short(fn) + ":" + k.field
				if why, ok := exempt[k.field]; ok {
					r.Note(rule, key, c.ipos(st), "reviewed: "+why)
					continue
				}
				n++
				outside := outsideSet[k]
				r.Check(outside, rule, key, c.ipos(st), "also stored outside the loop over the extensions (reset before it, or committed after it)", "the handshake state's "+k.field+" is stored only when the ClientHello carries the extension and never reset: what the first, cookie-less ClientHello - which no Finished covers - put there survives the ClientHello that echoes the cookie, so an extension added to the first ClientHello in flight steers the value both sides complete with")
			}
		}
	}
	// (the floor counts the loop: a parser that collects everything in locals and commits after
	// the loop stores nothing inside it)
	_ = n
	r.Floor(rule, nLoops, 1)
}

// ruleFirstHelloRecorded (C04, C13): the second ClientHello is compared with the first, and the
// offer later flights negotiate from is the recorded one: the parser of the first ClientHello
// records it (ClientHelloSnapshots.RecordWire) on every path on which it advances - also the one
// that asks for a cookie. A parser that records only the ClientHello that brings the cookie
// leaves the comparison with nothing but that ClientHello itself.
func ruleFirstHelloRecorded(c *Ctx, r *Report) {
	const rule = "first-hello-recorded"
	n := 0
	for _, pkg := range []string{pkgF12, pkgF13} {
		fn := c.need(r, rule, pkg+".flight0Parse")
		if fn == nil {
			continue
		}
		r.Sites += len(fn.Blocks)
		recs := findCalls(fn, nameHasSuffix("ClientHelloSnapshots).RecordWire"))
		if len(recs) == 0 {
			r.Bad(rule, short(fn), c.pos(fn.Pos()), "the parser of the first ClientHello never records it: the ClientHello that echoes the cookie is compared with itself")
			continue
		}
		for _, b := range fn.Blocks {
			ret, ok := b.Instrs[len(b.Instrs)-1].(*ssa.Return)
			if !ok || !isAdvanceReturn(ret) {
				continue
			}
			n++
			good, why := false, ""
			for _, rc := range recs {
				g, w := guardedBy(rc, rc, ret)
				if g {
					good = true
				}
				why = w
			}
			r.Check(good, rule, fmt.Sprintf("%s:exit@%s", short(fn), c.ipos(ret)), c.ipos(ret), "advances only after the ClientHello was recorded", "the parser of the first ClientHello can advance (ask for the cookie, or go on) without having recorded that ClientHello ("+why+"): the ClientHello that echoes the cookie is then compared with nothing but itself, and whatever was altered in the first one - cipher suites removed, extensions stripped - is what both sides negotiate from")
		}
	}
	r.Floor(rule, n, 2)
}

// ruleReceivePositionSeededUnconditionally (C06, C19): the importer of a serialised state hands
// the exported receive position to the connection state whatever its value: in the import unit,
// every successful return is reached through the store of State.remoteSequenceNumber into
// Common.RemoteSequenceNumber. A store under a condition on the value can drop every genuine
// position, and the resumed connection delivers the exported connection's records again.
func ruleReceivePositionSeededUnconditionally(c *Ctx, r *Report) {
	const rule = "receive-position-seeded-unconditionally"
	fn := c.need(r, rule, "(*dtls.State).generateInternalState")
	if fn == nil {
		return
	}
	n := 0
	for _, u := range c.unitFuncs(fn) {
		for _, b := range u.Blocks {
			for _, in := range b.Instrs {
				var val, addr ssa.Value
				isPosition := func(v ssa.Value) bool {
					return anyLeaf(c.Origins(v, 0), func(l ssa.Value) bool { return isFieldLoad(l, "dtls.State", "remoteSequenceNumber") })
				}
				viaHelper := false
				switch x := in.(type) {
				case *ssa.Call:
					if calleeName(&x.Call) == "sync/atomic.StoreUint64" && len(x.Call.Args) == 2 {
						addr, val = x.Call.Args[0], x.Call.Args[1]
						break
					}
					// a helper of the module that is handed the position and the counters
					// (or whose result becomes the counters)
					g := x.Call.StaticCallee()
					if g == nil || !inModule(g) {
						continue
					}
					hasPos, hasCounters := false, false
					for _, a := range x.Call.Args {
						if isPosition(a) {
							hasPos = true
						}
						if _, f, _, okF := fieldLoad(a); okF && f == "RemoteSequenceNumber" {
							hasCounters = true
						}
						if _, f, _, okF := fieldOfAddr(a); okF && f == "RemoteSequenceNumber" {
							hasCounters = true
						}
					}
					if refs := x.Referrers(); refs != nil {
						for _, ref := range *refs {
							if st, isSt := ref.(*ssa.Store); isSt && st.Val == ssa.Value(x) {
								if _, f, _, okF := fieldOfAddr(st.Addr); okF && f == "RemoteSequenceNumber" {
									hasCounters = true
								}
							}
						}
					}
					if !hasPos || !hasCounters {
						continue
					}
					viaHelper = true
				case *ssa.Store:
					addr, val = x.Addr, x.Val
				default:
					continue
				}
				if !viaHelper {
					ia, ok := addr.(*ssa.IndexAddr)
					if !ok {
						continue
					}
					if _, f, _, okF := fieldLoad(ia.X); !okF || f != "RemoteSequenceNumber" {
						continue
					}
					if !isPosition(val) {
						continue
					}
				}
				n++
				r.Sites += len(u.Blocks)
				// every successful return of the function that holds the store passes it
				bad := ""
				w := &Walk{Fn: u, Visit: func(i2 ssa.Instruction, _ Env) bool { return i2 != in }}
				w.FromEntry()
				for _, ro := range w.Returns {
					last := len(ro.Vals) - 1
					if last >= 0 && isErrorType(ro.Ret.Results[last].Type()) && ro.Vals[last].Kind == 2 && !ro.Vals[last].B {
						continue // an error exit
					}
					bad = c.ipos(ro.Ret)
				}
				r.Check(bad == "", rule, short(u), c.ipos(in), "every successful exit of the importer passes the store of the exported receive position", "the importer can succeed ("+bad+") without handing the exported receive position to the connection state (the store sits under a condition): the resumed connection then rebuilds its replay window from record 0 and delivers every record the exported connection had accepted once more")
			}
		}
	}
	r.Floor(rule, n, 1)
}

// byteTerms: the value as a sum of input bytes shifted into place (index of the byte in the
// input slice -> shift), computed with the width of every intermediate type: a byte shifted out
// of a 16-bit intermediate is gone. ok is false for anything else.
func byteTerms(v ssa.Value, in ssa.Value, d int) (map[int]uint, bool) {
	if d > 12 {
		return nil, false
	}
	width := func(t types.Type) uint {
		if bt, ok := t.Underlying().(*types.Basic); ok {
			switch bt.Kind() {
			case types.Uint8, types.Int8:
				return 8
			case types.Uint16, types.Int16:
				return 16
			case types.Uint32, types.Int32:
				return 32
			case types.Uint64, types.Int64, types.Uint, types.Int:
				return 64
			}
		}
		return 0
	}
	clip := func(m map[int]uint, w uint) map[int]uint {
		out := map[int]uint{}
		for i, s := range m {
			if s+8 <= w {
				out[i] = s
			}
		}
		return out
	}
	// bytesAt: the bytes of a slice expression as input indices (-1: a zero byte)
	var bytesAt func(s ssa.Value, n int, d int) ([]int, bool)
	bytesAt = func(s ssa.Value, n int, d int) ([]int, bool) {
		if d > 6 {
			return nil, false
		}
		if s == in {
			out := make([]int, n)
			for i := range out {
				out[i] = i
			}
			return out, true
		}
		switch x := s.(type) {
		case *ssa.Slice:
			lo := int64(0)
			if x.Low != nil {
				k, ok := constInt(x.Low)
				if !ok {
					return nil, false
				}
				lo = k
			}
			base, ok := bytesAt(x.X, n+int(lo), d+1)
			if !ok || len(base) < n+int(lo) {
				return nil, false
			}
			return base[lo : int(lo)+n], true
		case *ssa.MakeSlice, *ssa.Alloc:
			// a zeroed local buffer into which the input is copied once
			out := make([]int, n)
			for i := range out {
				out[i] = -1
			}
			copies := 0
			refs := x.(ssa.Value).Referrers()
			if refs == nil {
				return nil, false
			}
			var scan func(v ssa.Value, off int) bool
			scan = func(v ssa.Value, off int) bool {
				for _, ref := range *v.Referrers() {
					switch y := ref.(type) {
					case *ssa.Slice:
						lo := 0
						if y.Low != nil {
							k, ok := constInt(y.Low)
							if !ok {
								return false
							}
							lo = int(k)
						}
						if !scan(y, off+lo) {
							return false
						}
					case *ssa.Call:
						switch calleeName(&y.Call) {
						case "builtin:copy":
							if y.Call.Args[0] != v {
								continue
							}
							if y.Call.Args[1] != in {
								return false
							}
							copies++
							for i := 0; off+i < n; i++ {
								out[off+i] = i
							}
						default:
							// read by the decoder call itself
						}
					case *ssa.Store, *ssa.IndexAddr:
						return false
					}
				}
				return true
			}
			if !scan(x.(ssa.Value), 0) || copies != 1 {
				return nil, false
			}
			return out, true
		}
		return nil, false
	}
	switch x := v.(type) {
	case *ssa.Const:
		if k, ok := constInt(x); ok && k == 0 {
			return map[int]uint{}, true
		}
		return nil, false
	case *ssa.UnOp:
		if x.Op != token.MUL {
			return nil, false
		}
		ia, ok := x.X.(*ssa.IndexAddr)
		if !ok || ia.X != in {
			return nil, false
		}
		k, okK := constInt(ia.Index)
		if !okK {
			return nil, false
		}
		return map[int]uint{int(k): 0}, true
	case *ssa.Convert:
		m, ok := byteTerms(x.X, in, d+1)
		if !ok {
			return nil, false
		}
		return clip(m, width(x.Type())), true
	case *ssa.ChangeType:
		return byteTerms(x.X, in, d+1)
	case *ssa.BinOp:
		switch x.Op {
		case token.SHL:
			k, okK := constInt(x.Y)
			m, ok := byteTerms(x.X, in, d+1)
			if !ok || !okK {
				return nil, false
			}
			out := map[int]uint{}
			for i, s := range m {
				out[i] = s + uint(k)
			}
			return clip(out, width(x.Type())), true
		case token.OR, token.ADD, token.XOR:
			a, ok1 := byteTerms(x.X, in, d+1)
			b, ok2 := byteTerms(x.Y, in, d+1)
			if !ok1 || !ok2 {
				return nil, false
			}
			out := map[int]uint{}
			for i, s := range a {
				out[i] = s
			}
			for i, s := range b {
				if _, dup := out[i]; dup {
					return nil, false
				}
				out[i] = s
			}
			return out, true
		}
		return nil, false
	case *ssa.Call:
		nm := calleeName(&x.Call)
		n := 0
		switch {
		case strings.HasSuffix(nm, "bigEndian).Uint16"):
			n = 2
		case strings.HasSuffix(nm, "bigEndian).Uint32"):
			n = 4
		case strings.HasSuffix(nm, "bigEndian).Uint64"):
			n = 8
		default:
			return nil, false
		}
		idx, ok := bytesAt(x.Call.Args[len(x.Call.Args)-1], n, 0)
		if !ok {
			return nil, false
		}
		out := map[int]uint{}
		for j, i := range idx {
			if i >= 0 {
				out[i] = uint(8 * (n - 1 - j))
			}
		}
		return out, true
	}
	return nil, false
}

// ruleUint24Decoder (C12, C18): the length, fragment offset and fragment length of a handshake
// header are 24-bit big-endian fields, read through one helper. What that helper returns for an
// input of at least three bytes is byte 0 shifted by 16, byte 1 by 8 and byte 2 - computed at
// the width of every intermediate, so that a byte shifted out of a 16-bit intermediate counts as
// lost. A helper that drops the top byte reassembles every message of 64 KiB or more wrongly.
func ruleUint24Decoder(c *Ctx, r *Report) {
	const rule = "uint24-decoder"
	want := map[int]uint{0: 16, 1: 8, 2: 0}
	// the readers: whatever function of the module ([]byte) -> uint32 the header decoder takes
	// its three 24-bit fields from
	hd := c.need(r, rule, "(*pkg/protocol/handshake.Header).Unmarshal")
	if hd == nil {
		return
	}
	readers := map[*ssa.Function]bool{}
	fed := 0
	for _, f := range []string{"Length", "FragmentOffset", "FragmentLength"} {
		for _, st := range c.StoresTo("pkg/protocol/handshake.Header", f) {
			if st.Fn != hd {
				continue
			}
			cl, isCall := stripConv(st.Val).(*ssa.Call)
			if !isCall {
				r.Note(rule, short(hd)+":"+f, c.ipos(st.Instr), "read in place, not through a reader function: not judged")
				continue
			}
			g := cl.Call.StaticCallee()
			if g == nil || !inModule(g) || len(g.Params) != 1 || len(g.Blocks) == 0 {
				r.Note(rule, short(hd)+":"+f, c.ipos(st.Instr), "read by a call this rule does not follow: not judged")
				continue
			}
			readers[g] = true
			fed++
		}
	}
	r.Sites += len(hd.Blocks)
	n := 0
	var order []*ssa.Function
	for g := range readers {
		order = append(order, g)
	}
	sort.Slice(order, func(i, j int) bool { return short(order[i]) < short(order[j]) })
	for _, fn := range order {
		r.Sites += len(fn.Blocks)
		for _, b := range fn.Blocks {
			ret, ok := b.Instrs[len(b.Instrs)-1].(*ssa.Return)
			if !ok || len(ret.Results) != 1 {
				continue
			}
			v := unspill(ret.Results[0])
			if k, isK := constInt(v); isK && k == 0 {
				continue // the short-input exit
			}
			n++
			got, decided := byteTerms(v, fn.Params[0], 0)
			if !decided {
				r.Unk(rule, short(fn), c.ipos(ret), "the value returned is not a combination of input bytes this rule can follow: "+shapeOf(v, 0))
				continue
			}
			same := len(got) == len(want)
			for i, s := range want {
				if gs, has := got[i]; !has || gs != s {
					same = false
				}
			}
			var desc []string
			for i := 0; i < 8; i++ {
				if s, has := got[i]; has {
					desc = append(desc, fmt.Sprintf("byte%d<<%d", i, s))
				}
			}
			r.Check(same, rule, short(fn), c.ipos(ret), "byte0<<16 | byte1<<8 | byte2", "the 24-bit big-endian reader returns "+strings.Join(desc, " | ")+" (an intermediate narrower than 24 bits loses the top byte): every handshake length and fragment offset of 65536 or more is read modulo 65536, so a large message is surfaced after its first fragment, or never")
		}
	}
	// (no floor on the readers: a decoder that reads its fields in place is noted, not judged)
	_ = fed
	_ = n
}

// ruleSummaryCarriesOutcomeFields (C13, C02): what one datagram produced is folded, record by
// record, into a summary the state machine acts on; "the peer repeated its ClientHello" is what
// makes a server send its cookie request again. Each boolean of the summary is fed by the
// outcome's field of the same name and nothing else: a repeated record of any other type must
// not count as a repeated ClientHello.
func ruleSummaryCarriesOutcomeFields(c *Ctx, r *Report) {
	const rule = "summary-carries-outcome-fields"
	n := 0
	for _, f := range []string{"containsHandshake", "retransmit", "retransmitsHello"} {
		for _, st := range c.StoresTo("dtls.datagramProcessingSummary", f) {
			bad := ""
			fed := false
			if k, isK := st.Val.(*ssa.Const); isK && k.Value != nil {
				if b, isB := constBool(k); !isB || !b {
					continue // an initialisation
				}
				// set to true under a test: the test is the outcome's field of the same name
				blk := st.Instr.Block()
				cond := "no test"
				if len(blk.Preds) == 1 {
					if br, isIf := blk.Preds[0].Instrs[len(blk.Preds[0].Instrs)-1].(*ssa.If); isIf && blk.Preds[0].Succs[0] == blk {
						cond = shapeOf(br.Cond, 0)
						if o, fl, _, ok := fieldLoad(br.Cond); ok && fl == f && strings.HasSuffix(o, "packetOutcome") {
							fed = true
						}
					}
				}
				n++
				r.Sites++
				r.Check(fed, rule, short(st.Fn)+":"+f, c.ipos(st.Instr), "set when the outcome's "+f+" is set", "the datagram summary's "+f+" is set under "+cond+" instead of the record outcome's "+f+": the state machine is told that the peer repeated its ClientHello when it repeated any handshake record, and a server waiting for the cookie answers every such record with another cookie request")
				continue
			}
			n++
			r.Sites++
			var look func(v ssa.Value, d int)
			seen := map[ssa.Value]bool{}
			look = func(v ssa.Value, d int) {
				if d > 8 || seen[v] {
					return
				}
				seen[v] = true
				switch x := v.(type) {
				case *ssa.Phi:
					for _, e := range x.Edges {
						look(e, d+1)
					}
				case *ssa.BinOp:
					look(x.X, d+1)
					look(x.Y, d+1)
				case *ssa.Const:
				default:
					o, fl, _, ok := fieldLoad(v)
					switch {
					case ok && fl == f && strings.HasSuffix(o, "packetOutcome"):
						fed = true
					case ok && fl == f && strings.HasSuffix(o, "datagramProcessingSummary"):
					case ok:
						bad = o + "." + fl
					default:
						bad = shapeOf(v, 0)
					}
				}
			}
			look(st.Val, 0)
			r.Check(bad == "" && fed, rule, short(st.Fn)+":"+f, c.ipos(st.Instr), "fed by the outcome's "+f, "the datagram summary's "+f+" is fed by "+bad+" instead of the record outcome's "+f+": the state machine is told that the peer repeated its ClientHello when it repeated any handshake record, and a server waiting for the cookie answers every such record with another cookie request")
		}
	}
	r.Floor(rule, n, 3)
	// ... and what the state machine is told about the datagram is the summary, field by field:
	// "this was a retransmission" (which keeps the backed-off interval) is the summary's
	// retransmit, "the peer repeated its ClientHello" is its retransmitsHello
	feeds := map[string]string{"HasHandshake": "containsHandshake", "IsRetransmit": "retransmit", "RepeatsHello": "retransmitsHello"}
	m := 0
	for _, f := range []string{"HasHandshake", "IsRetransmit", "RepeatsHello"} {
		for _, st := range c.StoresTo("internal/handshake.RecvHandshakeState", f) {
			if st.Fn.Pkg == nil || st.Fn.Pkg.Pkg.Name() != "dtls" {
				continue
			}
			if k, isK := st.Val.(*ssa.Const); isK {
				if b, isB := constBool(k); isB && !b {
					continue // no datagram at all
				}
			}
			m++
			r.Sites++
			good := false
			got := shapeOf(st.Val, 0)
			for _, l := range c.Origins(st.Val, 0) {
				if o, fl, _, ok := fieldLoad(l); ok && strings.HasSuffix(o, "datagramProcessingSummary") {
					got = fl
					good = fl == feeds[f]
				}
			}
			r.Check(good, rule, short(st.Fn)+":"+f, c.ipos(st.Instr), f+" = summary."+feeds[f], "the state machine's "+f+" is fed by "+got+" instead of the datagram summary's "+feeds[f]+": a retransmitted flight of the peer reaches the state machine as new data (the backed-off retransmission interval is restored every time), or any repeated record counts as a repeated ClientHello")
		}
	}
	r.Floor(rule, m, 3)
}

// ruleCandidateNeedsAllThree (C15): a record nominates its source address for a path validation
// only when return routability checks are on, the record carried the connection ID and it is the
// newest: in HandleCandidate, with any one of the three conditions false, the validation is not
// started (the manager's Start is not reached with a first argument that can be true).
func ruleCandidateNeedsAllThree(c *Ctx, r *Report) {
	const rule = "candidate-needs-all-three"
	fn := c.need(r, rule, "(dtls.returnRoutabilityConn).HandleCandidate")
	if fn == nil {
		return
	}
	r.Sites += len(fn.Blocks)
	var conds []*ssa.Parameter
	for _, p := range fn.Params {
		if bt, ok := p.Type().Underlying().(*types.Basic); ok && bt.Kind() == types.Bool {
			conds = append(conds, p)
		}
	}
	starts := findCalls(fn, nameHasSuffix("Manager).Start"))
	if len(conds) != 3 || len(starts) == 0 {
		r.Unk(rule, short(fn), c.pos(fn.Pos()), fmt.Sprintf("%d boolean conditions and %d calls of the manager's Start (expected 3 and at least 1)", len(conds), len(starts)))
		return
	}
	for _, p := range conds {
		p0 := p
		started := ""
		w := &Walk{Fn: fn, Assume: func(v ssa.Value) (Val, bool) {
			if v == ssa.Value(p0) {
				return vBool(false), true
			}
			return unknown, false
		}}
		w.Visit = func(in ssa.Instruction, env Env) bool {
			for _, sc := range starts {
				if in == ssa.Instruction(sc) {
					// the first argument after the receiver: whether to start at all
					arg := callArg(&sc.Call, 0)
					if val := w.eval(arg, env); !(val.Kind == 1 && !val.B) {
						started = c.ipos(sc)
					}
				}
			}
			return true
		}
		w.FromEntry()
		r.Check(started == "", rule, short(fn)+":"+p.Name(), c.pos(fn.Pos()), "with "+p.Name()+" false no validation is started", "a path validation can be started ("+started+") for a record with "+p.Name()+" false: a stale or connection-ID-less record from another address nominates that address, a challenge is sent there, and whoever answers it takes over the connection's peer address")
	}
}

// ruleParameterAccessorsIgnoreEstablishment (C19): what a connection reports about its
// negotiated parameters is read from its state. A resumed connection has that state from its
// creation but is marked established only when its state machine starts, at the first use: an
// accessor that consults the establishment signal reports nothing in between, although the
// exported connection reported the parameters. The accessors never consult that signal.
func ruleParameterAccessorsIgnoreEstablishment(c *Ctx, r *Report) {
	const rule = "parameter-accessors-ignore-establishment"
	n := 0
	for _, name := range []string{"ConnectionState", "SelectedSRTPProtectionProfile", "RemoteSRTPMasterKeyIdentifier"} {
		fn := c.need(r, rule, "(*dtls.Conn)."+name)
		if fn == nil {
			continue
		}
		n++
		r.Sites += len(fn.Blocks)
		asks := ""
		for _, cl := range callsReached(fn, followSamePkg(fn), func(cl *ssa.Call) bool { return true }) {
			nm := calleeName(&cl.Call)
			if strings.HasSuffix(nm, ").isHandshakeCompletedSuccessfully") || strings.HasSuffix(nm, "Establishment).Established") || strings.HasSuffix(nm, "Establishment).Done") || strings.HasSuffix(nm, "Establishment).Wait") {
				asks = nm + " at " + c.ipos(cl)
			}
		}
		r.Check(asks == "", rule, short(fn), c.pos(fn.Pos()), "reads the state only", "the accessor consults the establishment signal ("+asks+"): a connection resumed from an exported state has its parameters from the start but is marked established only at its first Read, Write or Handshake, so it reports no "+name+" where the exported connection did")
	}
	r.Floor(rule, n, 3)
}

// ruleEncoderRefusalMatchesDecoder (C18): a handshake message that the decoder accepts can be
// encoded again. An encoder refuses a byte-string field only for a length its length prefix
// cannot carry (or a bound its own decoder enforces too): a comparison of len(field) with a
// smaller number - a constant, or a number chosen between constants - that leads to an error
// exit is a refusal the decoder does not share.
func ruleEncoderRefusalMatchesDecoder(c *Ctx, r *Report) {
	const rule = "encoder-refusal-matches-decoder"
	n := 0
	for _, fn := range c.fnsOfPkg("pkg/protocol/handshake") {
		if fn.Name() != "Marshal" || fn.Signature.Recv() == nil || len(fn.Blocks) == 0 {
			continue
		}
		recvT := namedOf(derefType(fn.Signature.Recv().Type()))
		dec := c.Fn("(*" + recvT + ").Unmarshal")
		for _, b := range fn.Blocks {
			for _, in := range b.Instrs {
				bo, ok := in.(*ssa.BinOp)
				if !ok || (bo.Op != token.GTR && bo.Op != token.GEQ && bo.Op != token.LSS && bo.Op != token.LEQ) {
					continue
				}
				// len(recv.F) compared with bounds
				var lenSide, bound ssa.Value
				for _, pr := range [][2]ssa.Value{{bo.X, bo.Y}, {bo.Y, bo.X}} {
					if cl, isCall := stripConv(pr[0]).(*ssa.Call); isCall && calleeName(&cl.Call) == "builtin:len" {
						if o, _, _, okF := fieldLoad(cl.Call.Args[0]); okF && o == recvT {
							lenSide, bound = cl, pr[1]
						}
					}
				}
				if lenSide == nil {
					continue
				}
				// the numbers the bound can be
				var ks []int64
				decided := true
				var collect func(v ssa.Value, d int)
				collect = func(v ssa.Value, d int) {
					if k, isK := constInt(v); isK {
						ks = append(ks, k)
						return
					}
					if phi, isPhi := v.(*ssa.Phi); isPhi && d < 3 {
						for _, e := range phi.Edges {
							collect(e, d+1)
						}
						return
					}
					decided = false
				}
				collect(stripConv(bound), 0)
				if !decided || len(ks) == 0 {
					continue
				}
				// (a comparison with zero asks whether the field is there, not how long it is)
				presence := true
				for _, k := range ks {
					if k > 0 {
						presence = false
					}
				}
				if presence {
					continue
				}
				// a refusal: the comparison being true (len too large) leads only to error exits
				tooLarge := bo.Op == token.GTR || bo.Op == token.GEQ
				if lenSide != stripConv(bo.X) {
					tooLarge = !tooLarge
				}
				if !tooLarge {
					continue
				}
				// (byte strings only: a bound on a list of wider elements counts elements)
				if sl, isSl := lenSide.(*ssa.Call).Call.Args[0].Type().Underlying().(*types.Slice); !isSl {
					continue
				} else if bt, isB := sl.Elem().Underlying().(*types.Basic); !isB || bt.Kind() != types.Byte {
					continue
				}
				bo0 := bo
				wr := (&Walk{Fn: fn, Assume: func(v ssa.Value) (Val, bool) {
					if v == ssa.Value(bo0) {
						return vBool(true), true
					}
					return unknown, false
				}}).After(bo0)
				refusal := len(wr.Returns) > 0
				for _, ro := range wr.Returns {
					last := len(ro.Vals) - 1
					if last < 0 || !isErrorType(ro.Ret.Results[last].Type()) || isNilConst(unspill(ro.Ret.Results[last])) || (ro.Vals[last].Kind == 2 && ro.Vals[last].B) {
						refusal = false
					}
				}
				if !refusal {
					continue
				}
				n++
				r.Sites++
				_, fld, _, _ := fieldLoad(lenSide.(*ssa.Call).Call.Args[0])
				// the decoder's own bound for the field: the capacity of a one- or two-byte length
				// prefix, unless the decoder compares the field's length with a constant itself
				decBounds := map[int64]bool{255: true, 65535: true, 256: true, 65536: true}
				if dec != nil {
					for _, db := range dec.Blocks {
						for _, di := range db.Instrs {
							if dbo, isBo := di.(*ssa.BinOp); isBo {
								for _, side := range []ssa.Value{dbo.X, dbo.Y} {
									if k, isK := constInt(side); isK && k > 0 {
										decBounds[k] = true
										decBounds[k+1] = true
									}
								}
							}
						}
					}
				}
				bad := ""
				for _, k := range ks {
					if !decBounds[k] {
						bad = fmt.Sprint(k)
					}
				}
				r.Check(bad == "", rule, fmt.Sprintf("%s:len(%s)", short(fn), fld), c.ipos(bo), "refuses only what the length prefix (or the decoder) refuses", "the encoder refuses "+fld+" longer than "+bad+" bytes, a bound neither the field's length prefix nor the decoder of the same message has: a message the decoder accepts - from the wire, in every version context - cannot be encoded again")
			}
		}
	}
	r.Floor(rule, n, 3)
}

// ruleCertTypeFromKey (C11): which certificate-authenticated cipher suites a server offers is
// decided by the type of its key - what it can sign the key exchange with. The filter looks at
// the key (the signer's public key, or the leaf's public key algorithm), never at the algorithm
// the certificate itself was signed with: an ECDSA key certified by an RSA authority signs with
// ECDSA.
func ruleCertTypeFromKey(c *Ctx, r *Report) {
	const rule = "cert-type-from-key"
	fn := c.need(r, rule, "dtls.filterCipherSuitesForCertificate")
	if fn == nil {
		return
	}
	r.Sites += len(fn.Blocks)
	bad := ""
	byKey := false
	for _, u := range c.unitFuncs(fn) {
		for _, b := range u.Blocks {
			for _, in := range b.Instrs {
				switch x := in.(type) {
				case *ssa.UnOp, *ssa.Field:
					if o, f, _, ok := fieldLoad(x.(ssa.Value)); ok && strings.HasSuffix(o, "x509.Certificate") {
						switch f {
						case "SignatureAlgorithm", "Signature", "Issuer", "RawIssuer":
							bad = f + " at " + c.ipos(in)
						case "PublicKey", "PublicKeyAlgorithm":
							byKey = true
						}
					}
				case *ssa.Call:
					if x.Call.IsInvoke() && x.Call.Method.Name() == "Public" {
						byKey = true
					}
				}
			}
		}
	}
	r.Check(bad == "" && byKey, rule, short(fn), c.pos(fn.Pos()), "the certificate type is taken from the key", "the certificate type that filters the cipher suites is taken from the certificate's "+bad+" (how the issuer signed it) instead of the server's key: a key of one family certified by an authority of the other negotiates a suite whose key exchange it cannot sign as the suite says, and the handshake completes with a suite that does not fit the key")
}

// ruleACKOnlyOn13 (C17, C08): DTLS 1.2 has no ACK content type, and the finished DTLS 1.2 state
// machine answers every event by sending its final flight again. A record of content type ACK
// on a connection whose version is not DTLS 1.3 therefore produces nothing: with the version test
// answering "not 1.3", the ACK branch of the content dispatch commits no replay slot and hands
// no acknowledgement to the state machine.
func ruleACKOnlyOn13(c *Ctx, r *Report) {
	const rule = "ack-only-on-13"
	fn := c.need(r, rule, "(*dtls.Conn).handleRecordContent")
	if fn == nil {
		return
	}
	r.Sites += len(fn.Blocks)
	matched := 0
	isVersionTest := func(v ssa.Value) bool {
		cl, ok := v.(*ssa.Call)
		if !ok || !strings.HasSuffix(calleeName(&cl.Call), "protocol.Version).Equal") {
			return false
		}
		for _, a := range cl.Call.Args {
			if _, f, _, okF := fieldLoad(a); okF && f == "LocalVersion" {
				return true
			}
		}
		return false
	}
	w := &Walk{Fn: fn, Follow: followSamePkgExcept(fn, "handleApplicationDataRecord", "handleChangeCipherSpecRecord"), Assume: assumeAll(
		atomAssume{mTypeAssertOK("pkg/protocol.ACK"), vBool(true)},
		atomAssume{func(v ssa.Value) bool {
			ex, ok := v.(*ssa.Extract)
			if !ok || ex.Index != 1 {
				return false
			}
			ta, ok := ex.Tuple.(*ssa.TypeAssert)
			return ok && ta.CommaOk && namedOf(ta.AssertedType) != "pkg/protocol.ACK"
		}, vBool(false)},
		atomAssume{func(v ssa.Value) bool {
			if isVersionTest(v) {
				matched++
				return true
			}
			return false
		}, vBool(false)},
	)}
	commit := ""
	w.Visit = func(in ssa.Instruction, _ Env) bool {
		if call, ok := in.(*ssa.Call); ok && !call.Call.IsInvoke() && call.Call.StaticCallee() == nil && isFuncBoolType(call.Call.Value.Type()) {
			commit = c.ipos(call)
		}
		return true
	}
	w.FromEntry()
	handed := ""
	for _, ro := range w.Returns {
		for i, rv := range ro.Ret.Results {
			if !strings.HasSuffix(namedOrType(rv.Type()), "packetOutcome") {
				continue
			}
			if v := fieldOfReturnedStruct(ro.Ret, i, "receivedACK"); v != nil && !isNilConst(v) {
				handed = c.ipos(ro.Ret)
			}
		}
	}
	switch {
	case matched == 0:
		r.Bad(rule, short(fn), c.pos(fn.Pos()), "the content dispatch hands an ACK record to the state machine whatever the connection's version: DTLS 1.2 has no ACK, the record is anybody's (epoch 0 is unauthenticated), and the finished DTLS 1.2 state machine answers every event by sending its final flight again - one forged 17-byte datagram, one ChangeCipherSpec and Finished, for the lifetime of the connection")
	default:
		r.Check(handed == "" && commit == "" && len(w.Returns) > 0 && !w.overflow, rule, short(fn), c.pos(fn.Pos()), "on a connection that is not DTLS 1.3 an ACK record commits nothing and hands nothing on", "on a connection that is not DTLS 1.3 an ACK record still reaches the state machine (acknowledgement handed on at "+handed+", replay slot committed at "+commit+")")
	}
}

// ruleCacheMarshalsMessageAlone (C12): a handshake message of any size is sent as fragments; the
// bytes that go into the transcript cache are the message marshalled on its own. Marshalled as
// one record it would have to fit a record's 16-bit length, and the refusal of the record
// encoder would abort the flight before the message is cut: in the function that caches an
// outgoing handshake message the record encoder is not called, and what is pushed comes from
// the message's own encoder.
func ruleCacheMarshalsMessageAlone(c *Ctx, r *Report) {
	const rule = "cache-marshals-message-alone"
	fn := c.need(r, rule, "(*dtls.Conn).cacheHandshakePacket")
	if fn == nil {
		return
	}
	r.Sites += len(fn.Blocks)
	rec := callsReached(fn, followSamePkg(fn), func(cl *ssa.Call) bool {
		return strings.HasSuffix(calleeName(&cl.Call), "recordlayer.RecordLayer).Marshal")
	})
	where := ""
	if len(rec) > 0 {
		where = c.ipos(rec[0])
	}
	pushes := findCalls(fn, nameHasSuffix("flight.Cache).Push"))
	fromMessage := len(pushes) > 0
	for _, p := range pushes {
		if !anyLeaf(c.Origins(p.Call.Args[1], 0), func(l ssa.Value) bool {
			return isCallResult(l, nameHasSuffix("handshake.Handshake).Marshal")) || isCallResult(l, func(n string) bool { return strings.HasSuffix(n, "Content.Marshal") })
		}) {
			fromMessage = false
		}
	}
	r.Check(len(rec) == 0 && fromMessage, rule, short(fn), c.pos(fn.Pos()), "the cached bytes are the message marshalled on its own", "the outgoing handshake message is marshalled as one record to obtain the bytes for the transcript cache ("+where+"): the record encoder refuses content over 65535 bytes, so a message with more than 65523 body bytes - which is cut into fragments afterwards and which the receiver reassembles - cannot be sent at all")
}

// ruleResumedFinalFlightResendable (C19, tracker): the side that sent the last flight of a
// handshake re-sends it when the peer retransmits. A connection resumed from a serialised state
// starts its state machine in the finished state; when it is the side that sent the last flight
// (the server of a full handshake) the start must give the machine that flight to re-send, or a
// final flight that was lost before the export is never repeated.
func ruleResumedFinalFlightResendable(c *Ctx, r *Report) {
	const rule = "resumed-final-flight-resendable"
	flights := c.enumConsts(pkgF12, "Flight")
	states := c.enumConsts(pkgHS, "State")
	n := 0
	// (wherever in the root package the start of a resumed connection is built: the finding is
	// named after the flight, not after the function that happens to hold the literal)
	for _, fn := range c.fnsOfPkg("") {
		for _, al := range allocsOf(fn, "dtls.handshakeStart") {
			f := litFields(al)
			st, okS := constInt(f["fsmState"])
			fl, okF := constInt(f["flight12"])
			if !okS || !okF || st != states["StateFinished"] {
				continue
			}
			name := ""
			for nm, v := range flights {
				if v == fl {
					name = nm
				}
			}
			if name != "Flight6" && name != "Flight5b" {
				continue // not the side that sent the last flight
			}
			n++
			r.Sites += len(fn.Blocks)
			v, has := f["flights"]
			r.Check(has && !isNilConst(v), rule, "dtls:resume-start:"+name+":flights", c.ipos(al), "the resumed last-flight sender is given the flight to re-send", "a connection resumed as the side that sent the last flight ("+name+") starts in the finished state with nothing to re-send: when the final flight was lost before the export, the untouched peer's retransmission is answered with nothing, its handshake times out and no application data is exchanged")
		}
	}
	// no floor: this obligation tracks a finding that is on file; where the start is built in a
	// form this rule does not read (fields assigned one by one), the finding is simply not
	// re-stated, and nothing is claimed
	_ = n
}

// rulePSKHintDeclaredLength (C18, tracker): under a PSK key exchange the ServerKeyExchange
// starts with a length-prefixed identity hint. A declared hint length that exceeds the message
// is truncated input and must end in an error: with the key exchange having PSK and the
// length test answering "does not fit", the decoder has no successful exit.
func rulePSKHintDeclaredLength(c *Ctx, r *Report) {
	const rule = "psk-hint-declared-length"
	fn := c.need(r, rule, "(*pkg/protocol/handshake.MessageServerKeyExchange).Unmarshal")
	if fn == nil {
		return
	}
	r.Sites += len(fn.Blocks)
	matched := 0
	isHintLen := func(v ssa.Value) bool {
		return isCallResult(stripConv(v), nameHasSuffix("bigEndian).Uint16"))
	}
	w := (&Walk{Fn: fn, Assume: func(v ssa.Value) (Val, bool) {
		if cl, ok := v.(*ssa.Call); ok && strings.HasSuffix(calleeName(&cl.Call), "KeyExchangeAlgorithm).Has") {
			return vBool(true), true
		}
		bo, ok := v.(*ssa.BinOp)
		if !ok {
			return unknown, false
		}
		switch {
		case isHintLen(bo.X) && (bo.Op == token.LEQ || bo.Op == token.LSS):
			matched++
			return vBool(false), true
		case isHintLen(bo.X) && (bo.Op == token.GTR || bo.Op == token.GEQ):
			matched++
			return vBool(true), true
		case isHintLen(bo.Y) && (bo.Op == token.GEQ || bo.Op == token.GTR):
			matched++
			return vBool(false), true
		case isHintLen(bo.Y) && (bo.Op == token.LEQ || bo.Op == token.LSS):
			matched++
			return vBool(true), true
		}
		return unknown, false
	}}).FromEntry()
	okExit := ""
	for _, ro := range w.Returns {
		if len(ro.Vals) == 1 && (isNilConst(unspill(ro.Ret.Results[0])) || (ro.Vals[0].Kind == 2 && ro.Vals[0].B)) {
			okExit = c.ipos(ro.Ret)
		}
	}
	if matched == 0 {
		r.Unk(rule, short(fn), c.pos(fn.Pos()), "the comparison of the declared hint length with the message was not found")
		return
	}
	r.Check(okExit == "", rule, short(fn)+":hint-longer-than-message", c.pos(fn.Pos()), "a hint length beyond the message ends in an error", "under a PSK key exchange a declared identity-hint length that exceeds the message is not refused: the same bytes are read again as the ECDHE parameters and the decoder can succeed ("+okExit+")")
}

// ruleExtensionVectorBoundAgrees (C18, tracker): an encoder that refuses its extension vector
// beyond some length refuses what the decoder of the same message refuses. The vector the list
// encoder hands back includes its two-byte prefix; the decoders read a 16-bit length-prefixed
// vector, i.e. accept up to 65535 bytes of extensions unless they compare the length themselves.
// The bound on the extension bytes that the encoder's comparison amounts to is therefore 65535,
// or a number the decoder names too.
func ruleExtensionVectorBoundAgrees(c *Ctx, r *Report) {
	const rule = "extension-vector-bound-agrees"
	n := 0
	for _, fn := range c.fnsOfPkg("pkg/protocol/handshake") {
		if fn.Name() != "Marshal" || fn.Signature.Recv() == nil || len(fn.Blocks) == 0 {
			continue
		}
		recvT := namedOf(derefType(fn.Signature.Recv().Type()))
		dec := c.Fn("(*" + recvT + ").Unmarshal")
		for _, b := range fn.Blocks {
			for _, in := range b.Instrs {
				bo, ok := in.(*ssa.BinOp)
				if !ok || bo.Op != token.GTR {
					continue
				}
				k, isK := constInt(bo.Y)
				if !isK || k < 1000 {
					continue
				}
				// len(list) or len(list)-2 on the left
				x := stripConv(bo.X)
				minus := int64(0)
				if sub, isSub := x.(*ssa.BinOp); isSub && sub.Op == token.SUB {
					if m, isM := constInt(sub.Y); isM {
						minus = m
						x = stripConv(sub.X)
					}
				}
				cl, isCall := x.(*ssa.Call)
				if !isCall || calleeName(&cl.Call) != "builtin:len" || !isCallResult(cl.Call.Args[0], nameHasSuffix("extension.MarshalList")) {
					continue
				}
				n++
				r.Sites++
				// bytes of extensions the encoder lets through: len(list) - 2 <= bound
				bound := k + minus - 2
				agrees := bound == 65535
				if dec != nil && !agrees {
					for _, db := range dec.Blocks {
						for _, di := range db.Instrs {
							if dbo, isBo := di.(*ssa.BinOp); isBo {
								for _, side := range []ssa.Value{dbo.X, dbo.Y} {
									if dk, isDK := constInt(side); isDK && (dk == bound || dk == bound+1) {
										agrees = true
									}
								}
							}
						}
					}
				}
				r.Check(agrees, rule, short(fn)+":extensions", c.ipos(bo), fmt.Sprintf("the encoder lets through up to %d bytes of extensions, as the decoder does", bound), fmt.Sprintf("the encoder refuses more than %d bytes of extensions while the decoder of the same message accepts a 16-bit length-prefixed vector of up to 65535 and names no such bound: a message the decoder accepts at the top of the range cannot be encoded again", bound))
			}
		}
	}
	r.Floor(rule, n, 2)
}
