package main

import (
	"fmt"
	"go/token"
	"go/types"
	"os"
	"sort"
	"strings"

	"golang.org/x/tools/go/callgraph"
	"golang.org/x/tools/go/callgraph/cha"
	"golang.org/x/tools/go/packages"
	"golang.org/x/tools/go/ssa"
	"golang.org/x/tools/go/ssa/ssautil"
)

const modPath = "github.com/pion/dtls/v3"

// Ctx is the loaded, type-checked program in SSA form plus indexes.
type Ctx struct {
	Repo        string
	VerifDir    string
	otherRev    map[string]string
	Tier        string
	Fset        *token.FileSet
	Prog        *ssa.Program
	Pkgs        []*packages.Package     // module library packages (no examples)
	ByPath      map[string]*ssa.Package // import path -> ssa package
	TPkgs       map[string]*packages.Package
	Fns         []*ssa.Function // every function of the module (incl. anonymous), sorted
	fnByKey     map[string]*ssa.Function
	cg          *callgraph.Graph
	GoStmts     int
	lf          map[*ssa.Function]*lockFacts
	boundsReady bool
	Instrs      int
	callersIdx  map[*ssa.Function]*callerInfo
	aType       map[*types.TypeName]string
	aField      map[*types.Var]string
	aFn         map[*ssa.Function]string
	aReport     []string
}

func shortPath(p string) string {
	if p == modPath {
		return "dtls"
	}
	return strings.TrimPrefix(p, modPath+"/")
}

// short renders a function name with the module prefix removed:
// "(*dtls.Conn).processPacket", "internal/flight/flight12.flight4Parse".
func short(fn *ssa.Function) string {
	if fn == nil {
		return "<nil>"
	}
	if len(aliasFn) == 0 && len(aliasType) == 0 {
		return rawShort(fn)
	}
	if a, ok := aliasFn[fn]; ok {
		return a
	}
	// function literals and instantiations are named after their root function
	root := fn
	for root.Parent() != nil {
		root = root.Parent()
	}
	s := rawShort(fn)
	if root != fn {
		if a, ok := aliasFn[root]; ok {
			s = a + strings.TrimPrefix(s, rawShort(root))
		}
	}
	return aliasedTypeNames(s)
}

func inModule(fn *ssa.Function) bool {
	f := fn
	for f.Parent() != nil {
		f = f.Parent()
	}
	if f.Origin() != nil {
		f = f.Origin()
	}
	if f.Pkg == nil {
		// methods of instantiated generics / wrappers
		if f.Object() != nil && f.Object().Pkg() != nil {
			p := f.Object().Pkg().Path()
			return (p == modPath || strings.HasPrefix(p, modPath+"/")) && !strings.HasPrefix(p, modPath+"/examples")
		}
		return false
	}
	p := f.Pkg.Pkg.Path()
	return (p == modPath || strings.HasPrefix(p, modPath+"/")) && !strings.HasPrefix(p, modPath+"/examples")
}

func load(repo, tier, verifDir string, extraEnv []string) (*Ctx, error) {
	var env []string
	for _, e := range os.Environ() {
		if strings.HasPrefix(e, "PATH=") || strings.HasPrefix(e, "GOSUMDB=") || strings.HasPrefix(e, "GOWORK=") ||
			strings.HasPrefix(e, "GOFLAGS=") || strings.HasPrefix(e, "GOTOOLCHAIN=") {
			continue
		}
		env = append(env, e)
	}
	// the checker needs a go command >= the version in /repo/go.mod; the newer pre-installed
	// toolchain is used with GOTOOLCHAIN=local so that nothing is resolved over the network.
	goBin := os.Getenv("DTLSVET_GOBIN")
	if goBin == "" {
		goBin = "/opt/veriftools/go1.26.8/bin"
	}
	newPath := goBin + ":" + os.Getenv("PATH")
	// exec.LookPath inside go/packages consults this process's PATH, not cfg.Env
	_ = os.Setenv("PATH", newPath)
	env = append(env, "PATH="+newPath, "GOFLAGS=-mod=mod", "GOPROXY=off", "GOTOOLCHAIN=local", "GOWORK=off")
	env = append(env, extraEnv...)
	cfg := &packages.Config{
		Mode:  packages.LoadAllSyntax,
		Dir:   repo,
		Env:   env,
		Tests: false,
	}
	initial, err := packages.Load(cfg, "./...")
	if err != nil {
		return nil, fmt.Errorf("packages.Load: %w", err)
	}
	if len(initial) == 0 {
		return nil, fmt.Errorf("no packages loaded from %s", repo)
	}
	var errs []string
	packages.Visit(initial, nil, func(p *packages.Package) {
		for _, e := range p.Errors {
			errs = append(errs, fmt.Sprintf("%s: %s", p.PkgPath, e.Msg))
		}
	})
	if len(errs) > 0 {
		return nil, fmt.Errorf("type-check/load errors: %s", strings.Join(errs, "; "))
	}
	prog, _ := ssautil.AllPackages(initial, ssa.InstantiateGenerics)
	prog.Build()

	c := &Ctx{Repo: repo, VerifDir: verifDir, Tier: tier, Prog: prog, Fset: prog.Fset,
		ByPath: map[string]*ssa.Package{}, TPkgs: map[string]*packages.Package{}, fnByKey: map[string]*ssa.Function{}}
	for _, p := range initial {
		if strings.HasPrefix(p.PkgPath, modPath+"/examples") {
			continue
		}
		c.Pkgs = append(c.Pkgs, p)
		c.TPkgs[p.PkgPath] = p
	}
	if len(c.Pkgs) < 20 {
		return nil, fmt.Errorf("only %d library packages loaded (expected >= 20)", len(c.Pkgs))
	}
	for _, sp := range prog.AllPackages() {
		c.ByPath[sp.Pkg.Path()] = sp
	}
	for fn := range ssautil.AllFunctions(prog) {
		if fn.Blocks == nil || !inModule(fn) {
			continue
		}
		if fn.Synthetic != "" && !strings.HasPrefix(fn.Synthetic, "package initializer") && fn.Parent() == nil {
			// wrappers, bound methods, thunks: no source of their own
			continue
		}
		c.Fns = append(c.Fns, fn)
	}
	sort.Slice(c.Fns, func(i, j int) bool { return c.Fns[i].String() < c.Fns[j].String() })
	c.applyRenames()
	c.aType, c.aField, c.aFn, c.aReport = aliasType, aliasField, aliasFn, aliasReport
	for _, fn := range c.Fns {
		c.fnByKey[short(fn)] = fn
		for _, b := range fn.Blocks {
			c.Instrs += len(b.Instrs)
			for _, in := range b.Instrs {
				if _, ok := in.(*ssa.Go); ok {
					c.GoStmts++
				}
			}
		}
	}
	return c, nil
}

// CG returns the CHA call graph (built lazily).
func (c *Ctx) CG() *callgraph.Graph {
	if c.cg == nil {
		c.cg = cha.CallGraph(c.Prog)
	}
	return c.cg
}

// Fn resolves a function by its short name; nil if absent.
func (c *Ctx) Fn(name string) *ssa.Function { return c.fnByKey[name] }

// Pkg returns the ssa package for a module-relative path ("" = root).
func (c *Ctx) Pkg(rel string) *ssa.Package {
	if rel == "" || rel == "dtls" {
		return c.ByPath[modPath]
	}
	if p, ok := c.ByPath[modPath+"/"+rel]; ok {
		return p
	}
	return c.ByPath[rel]
}

// Named looks up a named type "pkgrel.Name".
func (c *Ctx) Named(rel, name string) *types.Named {
	p := c.Pkg(rel)
	if p == nil {
		return nil
	}
	o := p.Pkg.Scope().Lookup(name)
	if o == nil {
		return nil
	}
	n, _ := o.Type().(*types.Named)
	return n
}

func (c *Ctx) pos(p token.Pos) string {
	if !p.IsValid() {
		return ""
	}
	ps := c.Fset.Position(p)
	f := strings.TrimPrefix(ps.Filename, c.Repo+"/")
	return fmt.Sprintf("%s:%d", f, ps.Line)
}

func (c *Ctx) ipos(in ssa.Instruction) string {
	if in == nil {
		return ""
	}
	if p := in.Pos(); p.IsValid() {
		return c.pos(p)
	}
	// fall back to the closest positioned instruction in the block
	b := in.Block()
	if b != nil {
		for _, x := range b.Instrs {
			if x.Pos().IsValid() {
				return c.pos(x.Pos())
			}
		}
	}
	if in.Parent() != nil {
		return c.pos(in.Parent().Pos())
	}
	return ""
}

// activate installs this program's rename aliases in the naming layer.
func (c *Ctx) activate() {
	aliasType, aliasField, aliasFn, aliasReport = c.aType, c.aField, c.aFn, c.aReport
	if aliasType == nil {
		resetAliases()
	}
}
