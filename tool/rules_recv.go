package main

import (
	"fmt"
	"go/token"
	"go/types"
	"sort"
	"strings"

	"golang.org/x/tools/go/ssa"
)

// callEdgeReach: functions reachable from roots over call edges only (closures are
// entered only when something in the region may call them).
func (c *Ctx) callEdgeReach(roots ...*ssa.Function) map[*ssa.Function]bool {
	cg := c.CG()
	seen := map[*ssa.Function]bool{}
	work := append([]*ssa.Function{}, roots...)
	for len(work) > 0 {
		f := work[len(work)-1]
		work = work[:len(work)-1]
		if f == nil || seen[f] {
			continue
		}
		seen[f] = true
		if !inModule(f) {
			continue
		}
		if n := cg.Nodes[f]; n != nil {
			for _, e := range n.Out {
				work = append(work, e.Callee.Func)
			}
		}
	}
	return seen
}

func isFuncBoolType(t types.Type) bool {
	sig, ok := t.Underlying().(*types.Signature)
	if !ok || sig.Params().Len() != 0 || sig.Results().Len() != 1 {
		return false
	}
	b, ok := sig.Results().At(0).Type().Underlying().(*types.Basic)
	return ok && b.Kind() == types.Bool
}

// isZeroStruct: constant zero value of a struct type (e.g. incomingPacketState{}).
func isZeroStruct(v ssa.Value) bool {
	v = unspill(v)
	switch x := v.(type) {
	case *ssa.Const:
		if x.Value != nil {
			return false
		}
		_, ok := x.Type().Underlying().(*types.Struct)
		return ok
	case *ssa.UnOp:
		// load of a fresh local composite literal with no field stores
		if x.Op == token.MUL {
			if al, ok := x.X.(*ssa.Alloc); ok {
				for _, ref := range *al.Referrers() {
					switch ref.(type) {
					case *ssa.FieldAddr:
						return false
					case *ssa.Store:
						return false
					}
				}
				return true
			}
		}
	}
	return false
}

// returnsWhere lists the returns of fn whose result idx evaluates to a known bool b.
func boolReturns(fn *ssa.Function, idx int, b bool) []*ssa.Return {
	var out []*ssa.Return
	for _, blk := range fn.Blocks {
		ret, ok := blk.Instrs[len(blk.Instrs)-1].(*ssa.Return)
		if !ok || idx >= len(ret.Results) {
			continue
		}
		if k, isC := constBool(unspill(ret.Results[idx])); isC {
			if k == b {
				out = append(out, ret)
			}
			continue
		}
		// non-constant: may be either
		out = append(out, ret)
	}
	return out
}

// ruleReceiveOrder (C05-1, C06): the receive path checks the replay window before it decrypts,
// requires successful decryption and CID validation for protected records, and commits the
// replay slot only in functions that consume an authenticated record.
func ruleReceiveOrder(c *Ctx, r *Report) {
	const rule = "recv-order"
	prep := c.need(r, rule, "(*dtls.Conn).prepareIncomingPacket")
	handle := c.need(r, rule, "(*dtls.Conn).handleIncomingPacket")
	if prep == nil || handle == nil {
		return
	}
	// --- (1) no replay commit, emit or close inside the prepare/decrypt region
	region := c.callEdgeReach(prep)
	nRegion := 0
	for fn := range region {
		if !inModule(fn) || fn.Blocks == nil {
			continue
		}
		nRegion++
		r.Sites += len(fn.Blocks)
		for _, b := range fn.Blocks {
			for _, in := range b.Instrs {
				call, ok := in.(*ssa.Call)
				if !ok {
					continue
				}
				cc := &call.Call
				if cc.IsInvoke() {
					continue
				}
				switch cc.Value.(type) {
				case *ssa.Function, *ssa.Builtin, *ssa.MakeClosure:
					continue
				}
				if isFuncBoolType(cc.Value.Type()) {
					r.Bad("replay-commit-after-auth", short(fn), c.ipos(call), "a func() bool value (the replay-window accept closure) is invoked inside the prepare/decrypt path: the slot is committed before the record is authenticated and consumed")
				}
			}
		}
	}
	r.Extra["prepare_region_functions"] = nRegion
	for _, bad := range []string{"(*dtls.Conn).notify", "(*dtls.Conn).writePackets", "(*dtls.Conn).writePacketsWithResult", "(*dtls.Conn).close", "(dtls.returnRoutabilityConn).WriteRRC"} {
		f := c.Fn(bad)
		if f == nil {
			r.Unk("forgeries-vanish", "anchor:"+bad, "", "emit/close anchor not found")
			continue
		}
		r.Check(!region[f], "forgeries-vanish", "prepareIncomingPacket-/->"+bad, c.pos(prep.Pos()), "not reachable from the prepare/decrypt path", bad+" is reachable from prepareIncomingPacket: a record that fails authentication can cause an emission or a close")
	}
	r.OK("replay-commit-after-auth", "prepare-region", c.pos(prep.Pos()), fmt.Sprintf("%d functions reachable from prepareIncomingPacket examined: none invokes a func() bool value", nRegion))

	// --- (2) the accept closure is consumed only by the record consumers, reached only after prepare succeeded
	cons := map[string]bool{}
	for _, fn := range c.Fns {
		for _, b := range fn.Blocks {
			for _, in := range b.Instrs {
				call, ok := in.(*ssa.Call)
				if !ok || call.Call.IsInvoke() {
					continue
				}
				switch call.Call.Value.(type) {
				case *ssa.Function, *ssa.Builtin, *ssa.MakeClosure:
					continue
				}
				if !isFuncBoolType(call.Call.Value.Type()) {
					continue
				}
				// is it (possibly) the replay marker? leaves: Check result, field markPacketAsValid, params/freevars of that type
				isMarker := false
				for _, l := range c.Origins(call.Call.Value, 0) {
					switch x := l.(type) {
					case *ssa.Extract:
						if cl, ok := x.Tuple.(*ssa.Call); ok && cl.Call.IsInvoke() && cl.Call.Method.Name() == "Check" {
							isMarker = true
						}
					case *ssa.Parameter, *ssa.FreeVar:
						isMarker = true
					default:
						if _, f, _, ok := fieldLoad(l); ok && f == "markPacketAsValid" {
							isMarker = true
						}
					}
				}
				if isMarker {
					cons[short(fn)] = true
				}
			}
		}
	}
	allowed := map[string]string{
		"(*dtls.Conn).bufferHandshakeRecord":                     "handshake record consumer",
		"(*dtls.Conn).handleChangeCipherSpecRecord":              "ChangeCipherSpec consumer",
		"(*dtls.Conn).handleApplicationDataRecord":               "application data consumer",
		"(*dtls.Conn).handleRecordContent":                       "ACK/alert consumer",
		"(dtls.returnRoutabilityConn).HandleRecord":              "return-routability consumer",
		"(*dtls.Conn).protectedReplayMarker$1":                   "DTLS 1.3 wrapper closure (runs when a consumer invokes it)",
		"(*internal/rrc.Manager).WrapReplayMarker$1":             "RRC wrapper closure (runs when a consumer invokes it)",
		"(*internal/handshake.postHandshakeCompletion).complete": "unrelated func() bool? no",
	}
	delete(allowed, "(*internal/handshake.postHandshakeCompletion).complete")
	// a wrapper closure of a replay marker, whatever it is called: a function literal whose
	// parent asks a replay detector (Check) and hands the literal out as its commit function
	isMarkerWrapper := func(fn *ssa.Function) bool {
		par := fn.Parent()
		if fn == nil || par == nil {
			return false
		}
		asks := false
		for _, b := range par.Blocks {
			for _, in := range b.Instrs {
				if cl, ok := in.(*ssa.Call); ok && cl.Call.IsInvoke() && cl.Call.Method.Name() == "Check" {
					asks = true
				}
			}
		}
		if !asks {
			return false
		}
		for _, b := range par.Blocks {
			if ret, ok := b.Instrs[len(b.Instrs)-1].(*ssa.Return); ok && len(ret.Results) > 0 {
				if mc, ok := unspill(ret.Results[0]).(*ssa.MakeClosure); ok && mc.Fn == ssa.Value(fn) {
					return true
				}
			}
		}
		return false
	}
	marksOwnRecord := c.marksOwnRecord
	// a private helper cut out of a consumer: all its call sites are known and lie in consumers
	var helperOfConsumer func(fn *ssa.Function, d int) bool
	helperOfConsumer = func(fn *ssa.Function, d int) bool {
		if fn == nil || d > 2 {
			return false
		}
		sites, closed := c.staticCallers(fn)
		if !closed || len(sites) == 0 {
			return false
		}
		for _, s := range sites {
			if _, ok := allowed[short(s.Fn)]; ok {
				continue
			}
			if isMarkerWrapper(s.Fn) {
				continue // the commit closure of a replay marker forwards to it
			}
			if !helperOfConsumer(s.Fn, d+1) {
				return false
			}
		}
		return true
	}
	var names []string
	for n := range cons {
		names = append(names, n)
	}
	sort.Strings(names)
	nCons := 0
	for _, n := range names {
		if why, ok := allowed[n]; ok {
			nCons++
			r.OKTrivial("replay-commit-consumers", n, "", why)
		} else if isMarkerWrapper(c.Fn(n)) {
			nCons++
			r.OKTrivial("replay-commit-consumers", n, "", "wrapper closure of a replay marker (runs when a consumer invokes it)")
		} else if marksOwnRecord(c.Fn(n)) {
			r.OKTrivial("replay-commit-consumers", n, "", "marks the numbers of the imported receive position, taken from the connection's own state")
		} else if region[c.Fn(n)] {
			// already reported above
		} else if helperOfConsumer(c.Fn(n), 0) {
			nCons++
			r.OKTrivial("replay-commit-consumers", n, "", "private helper whose every caller is a consumer of an authenticated record")
		} else {
			r.Bad("replay-commit-consumers", n, "", "the replay accept closure is invoked by a function that is not a consumer of an authenticated record")
		}
	}
	r.Floor("replay-commit-consumers", nCons, 6)
	// consumers are called only from handleIncomingPacket/handleRecordContent, after prepare ok
	prepCalls := findCalls(handle, nameIs(short(prep)))
	if len(prepCalls) != 1 {
		r.Unk(rule, short(handle)+":prepare-call", c.pos(handle.Pos()), "prepareIncomingPacket is not called exactly once in handleIncomingPacket")
	} else {
		okV := resultValue(prepCalls[0], 1)
		for _, cn := range []string{"(*dtls.Conn).bufferHandshakeRecord", "(*dtls.Conn).handleRecordContent"} {
			for _, s := range c.CallsToName(cn) {
				if s.Fn != handle {
					r.Bad(rule, cn+"<-"+short(s.Fn), c.ipos(s.Call), "record consumer called from outside handleIncomingPacket (bypasses prepare/replay/decrypt)")
					continue
				}
				ok, why := guardedBy(prepCalls[0], okV, s.Call)
				r.Check(ok, rule, cn+":after-prepare-ok", c.ipos(s.Call), "reached only after prepareIncomingPacket returned ok", "record consumer reachable although prepareIncomingPacket failed: "+why)
			}
		}
		for _, cn := range []string{"(*dtls.Conn).handleChangeCipherSpecRecord", "(*dtls.Conn).handleApplicationDataRecord", "(dtls.returnRoutabilityConn).HandleRecord"} {
			for _, s := range c.CallsToName(cn) {
				r.Check(short(s.Fn) == "(*dtls.Conn).handleRecordContent", rule, cn+"<-"+short(s.Fn), c.ipos(s.Call), "called only from handleRecordContent", "record consumer called from outside handleRecordContent")
			}
		}
		// a failed prepare yields no outcome and no error (silent drop)
		w := (&Walk{Fn: handle, Assume: failAssumption(okV)}).After(prepCalls[0])
		silent := len(w.Returns) > 0
		for _, ro := range w.Returns {
			res := retResults(ro.Ret)
			if !(isZeroStruct(res[0]) && isNilConst(res[1])) {
				silent = false
			}
		}
		r.Check(silent, "forgeries-vanish", short(handle)+":prepare-failed", c.ipos(prepCalls[0]), "a record rejected by prepare yields (packetOutcome{}, nil): no alert, no error", "a record rejected by prepareIncomingPacket produces an outcome or an error (alert emission or connection teardown on forged input)")
	}

	// --- (3) DTLS 1.2 prepare: future-epoch test, then replay check, then decrypt; success needs all three
	if fn := c.need(r, rule, "(*dtls.Conn).prepareLegacyPacket"); fn != nil {
		r.Sites += len(fn.Blocks)
		fut := findCalls(fn, nameIs("(*dtls.Conn).handleFutureLegacyPacket"))
		rep := findCalls(fn, nameIs("(*dtls.Conn).legacyReplayMarker"))
		dec := findCalls(fn, nameIs("(*dtls.Conn).decryptLegacyPacket"))
		hdr := findCalls(fn, nameIs("(*dtls.Conn).unmarshalLegacyHeader"))
		if len(fut) != 1 || len(rep) != 1 || len(dec) != 1 || len(hdr) != 1 {
			r.Unk(rule, short(fn), c.pos(fn.Pos()), "expected exactly one call each of unmarshalLegacyHeader, handleFutureLegacyPacket, legacyReplayMarker, decryptLegacyPacket")
		} else {
			succ := boolReturns(fn, 1, true)
			vacuousExits, decidedExits := 0, 0
			defer func() {
				if decidedExits == 0 && vacuousExits > 0 {
					r.Unk(rule, short(fn)+":decrypt-required", c.pos(fn.Pos()), "no success exit can be taken by a protected record under the rule's assumptions (atoms no longer match the code)")
				}
			}()
			for _, ret := range succ {
				if k, isC := constBool(unspill(ret.Results[1])); !isC || !k {
					continue
				}
				ok1, w1 := guardedBy(hdr[0], resultValue(hdr[0], 1), ret)
				r.Check(ok1, rule, short(fn)+":header-parsed", c.ipos(ret), "success only after the header parsed", "success without a parsed header: "+w1)
				ok2, w2 := guardedBy(rep[0], resultValue(rep[0], 1), ret)
				r.Check(ok2, "replay-check", short(fn)+":checked", c.ipos(ret), "success only after the replay window accepted the sequence number", "a record can be accepted without passing the replay window check: "+w2)
				// decrypt for epoch != 0
				epochCmp := func(op token.Token) func(v ssa.Value) bool {
					return func(v ssa.Value) bool {
						bo, ok := v.(*ssa.BinOp)
						if !ok || bo.Op != op {
							return false
						}
						k, isK := constInt(bo.Y)
						if isK && k == 0 && isFieldLoad(bo.X, "pkg/protocol/recordlayer.Header", "Epoch") {
							return true
						}
						k, isK = constInt(bo.X)
						return isK && k == 0 && isFieldLoad(bo.Y, "pkg/protocol/recordlayer.Header", "Epoch")
					}
				}
				why := passesUnder(fn, []atomAssume{{epochCmp(token.NEQ), vBool(true)}, {epochCmp(token.EQL), vBool(false)}, {epochCmp(token.GTR), vBool(true)}}, dec[0], resultValue(dec[0], 2), ret)
				if strings.HasPrefix(why, "vacuous") {
					// this success exit cannot be taken by a protected record at all (the exit of the
					// unprotected epoch): nothing to show for it, as long as another exit can
					vacuousExits++
				} else {
					decidedExits++
					r.Check(why == "", rule, short(fn)+":decrypt-required", c.ipos(ret), "for epoch != 0 success only after decryptLegacyPacket reported ok", "a protected record (epoch != 0) can be accepted without successful decryption: "+why)
				}
				// marker in the returned state derives from the replay check
				ls := c.Origins(fieldOfReturnedStruct(ret, 0, "markPacketAsValid"), 0)
				r.Check(allLeaves(ls, func(v ssa.Value) bool { return isCallResult(v, nameIs("(*dtls.Conn).legacyReplayMarker")) }), "replay-check", short(fn)+":marker-source", c.ipos(ret), "the commit closure handed to the consumers is the one returned by the replay check", "the commit closure does not come from legacyReplayMarker: "+c.describeAll(ls))
			}
			r.Check(instrDominates(fut[0], rep[0]), "replay-window-bounded", short(fn), c.ipos(rep[0]), "future-epoch test precedes the lazily growing replay detector table", "legacyReplayMarker (which grows one detector per epoch) runs before the future-epoch bound: a record claiming epoch 65535 allocates 65536 detectors")
			r.Check(instrDominates(rep[0], dec[0]), rule, short(fn)+":check-before-decrypt", c.ipos(dec[0]), "replay check precedes decryption", "decryption runs before the replay check")
			// failure returns carry no state
			for _, ret := range boolReturns(fn, 1, false) {
				if k, isC := constBool(unspill(ret.Results[1])); isC && !k {
					r.Check(failStateOK(ret), rule, short(fn)+":fail-zero", c.ipos(ret), "failure return carries the zero packet state (or the failed callee's)", "a failure return carries a non-zero packet state (the commit closure escapes on a failure path)")
				}
			}
		}
	}
	// decryptLegacyPacket: success requires CID presence, decryption, CID equality
	if fn := c.need(r, rule, "(*dtls.Conn).decryptLegacyPacket"); fn != nil {
		r.Sites += len(fn.Blocks)
		pres := findCalls(fn, nameIs("(*dtls.Conn).validateLegacyCIDPresence"))
		dec := findCalls(fn, nameIs("(*dtls.Conn).decryptLegacyRecord"))
		if len(pres) != 1 || len(dec) != 1 {
			r.Unk("cid-checks", short(fn), c.pos(fn.Pos()), "expected one validateLegacyCIDPresence and one decryptLegacyRecord call")
		} else {
			n := 0
			for _, blk := range fn.Blocks {
				ret, ok := blk.Instrs[len(blk.Instrs)-1].(*ssa.Return)
				if !ok {
					continue
				}
				third := unspill(ret.Results[2])
				if k, isC := constBool(third); isC && !k {
					continue
				}
				n++
				key := fmt.Sprintf("%s:return%d", short(fn), n)
				ok1, w1 := guardedBy(pres[0], pres[0], ret)
				r.Check(ok1, "cid-checks", key+":presence", c.ipos(ret), "possible success only after validateLegacyCIDPresence", "decrypt result usable without the connection-ID presence check: "+w1)
				ok2, w2 := guardedBy(dec[0], resultValue(dec[0], 1), ret)
				r.Check(ok2, rule, key+":decrypted", c.ipos(ret), "possible success only after decryptLegacyRecord ok", "success without successful decryption: "+w2)
				r.Check(isCallResult(third, nameIs("(*dtls.Conn).validateLegacyCID")), "cid-checks", key+":equality", c.ipos(ret), "ok flag is the result of validateLegacyCID(header)", "the ok flag of a decrypted record is not the connection-ID equality check")
			}
			r.Floor("cid-checks", n, 1)
		}
	}
	if fn := c.need(r, rule, "(*dtls.Conn).decryptLegacyRecord"); fn != nil {
		decs := findCalls(fn, func(n string) bool {
			return strings.HasPrefix(n, "iface:") && strings.HasSuffix(n, "CipherSuite.Decrypt")
		})
		for _, ret := range boolReturns(fn, 1, true) {
			if k, isC := constBool(unspill(ret.Results[1])); isC && k && len(decs) == 1 {
				ok, why := guardedBy(decs[0], errResult(decs[0]), ret)
				r.Check(ok, rule, short(fn), c.ipos(ret), "ok only when CipherSuite.Decrypt returned nil error", "decryptLegacyRecord reports ok although CipherSuite.Decrypt failed: "+why)
			}
		}
	}
	if fn := c.need(r, "cid-checks", "(*dtls.Conn).validateLegacyCID"); fn != nil {
		eqs := findCalls(fn, nameIs("bytes.Equal", "crypto/subtle.ConstantTimeCompare", "crypto/hmac.Equal"))
		okEq := false
		for _, e := range eqs {
			a, b := e.Call.Args[0], e.Call.Args[1]
			isLocal := func(v ssa.Value) bool {
				return isCallResult(v, func(n string) bool { return strings.HasSuffix(n, ".LocalConnectionIDForInboundRecords") })
			}
			isHdr := func(v ssa.Value) bool { return isFieldLoad(v, "pkg/protocol/recordlayer.Header", "ConnectionID") }
			if (isLocal(a) && isHdr(b)) || (isLocal(b) && isHdr(a)) {
				for _, ret := range boolReturns(fn, 0, true) {
					if k, isC := constBool(unspill(ret.Results[0])); isC && k {
						ok, _ := guardedBy(e, e, ret)
						okEq = ok
					}
				}
			}
		}
		r.Check(okEq, "cid-checks", short(fn), c.pos(fn.Pos()), "true only when the record's CID equals the local CID", "validateLegacyCID can return true without the record's connection ID being equal to the local one")
	}

	// --- (4) DTLS 1.3 prepare
	if fn := c.need(r, rule, "(*dtls.Conn).prepareCiphertextPacket"); fn != nil {
		r.Sites += len(fn.Blocks)
		um := findCalls(fn, nameIs("(*dtls.Conn).unmarshalCiphertextRecord"))
		op := findCalls(fn, nameIs("(*dtls.Conn).openCiphertextRecord"))
		rp := findCalls(fn, nameIs("(*dtls.Conn).protectedReplayMarker"))
		pi := findCalls(fn, nameIs("(*dtls.Conn).prepareInnerPlaintextRecord"))
		if len(um) != 1 || len(op) != 1 || len(rp) != 1 || len(pi) != 1 {
			r.Unk(rule, short(fn), c.pos(fn.Pos()), "expected one call each of unmarshalCiphertextRecord, openCiphertextRecord, protectedReplayMarker, prepareInnerPlaintextRecord")
		} else {
			ok1, w1 := guardedBy(um[0], errResult(um[0]), op[0])
			r.Check(ok1, rule, short(fn)+":parsed", c.ipos(op[0]), "open only after the unified header parsed (CID policy inside)", "open without parsed header: "+w1)
			ok2, w2 := guardedBy(op[0], errResult(op[0]), rp[0])
			r.Check(ok2, rule, short(fn)+":open-before-replay", c.ipos(rp[0]), "replay marker created only after AEAD open succeeded", "the replay window is consulted/created for a record that did not authenticate: "+w2)
			ok3, w3 := guardedBy(rp[0], resultValue(rp[0], 1), pi[0])
			r.Check(ok3, "replay-check", short(fn)+":checked", c.ipos(pi[0]), "record handed on only after the replay window accepted it", "record handed on without replay check: "+w3)
			a := pi[0].Call.Args
			r.Check(isCallResult(a[len(a)-1], nameIs("(*dtls.Conn).protectedReplayMarker")), "replay-check", short(fn)+":marker-source", c.ipos(pi[0]), "commit closure = protectedReplayMarker result", "commit closure handed on is not the replay marker's")
			for _, blk := range fn.Blocks {
				if ret, ok := blk.Instrs[len(blk.Instrs)-1].(*ssa.Return); ok {
					if k, isC := constBool(unspill(ret.Results[1])); isC && !k {
						r.Check(failStateOK(ret), rule, short(fn)+":fail-zero", c.ipos(ret), "failure return carries the zero packet state (or the failed callee's)", "failure return carries state")
					} else if !isC {
						r.Check(isCallResult(unspill(ret.Results[1]), nameIs("(*dtls.Conn).prepareInnerPlaintextRecord")), rule, short(fn)+":ok-source", c.ipos(ret), "ok = prepareInnerPlaintextRecord's ok", "non-constant ok result of unknown origin")
					}
				}
			}
		}
	}
	ruleReceivePositionOnCommit(c, r)
}

// ruleReceivePositionOnCommit (C05, C06, C15, C19): the highest accepted record number - the receive
// position an exported state carries and a resumed connection rebuilds its replay window from - is
// advanced only inside the commit closure of a replay marker, behind the detector's accept call:
// a record that was not authenticated never moves it.
func ruleReceivePositionOnCommit(c *Ctx, r *Report) {
	// highest accepted sequence number is advanced only inside the accept closure
	for _, s := range c.CallsToName("(*dtls.Conn).updateRemoteSequenceNumber") {
		// ... of a replay marker: a function literal handed out by a function that asked a detector,
		// in which the advance follows the invocation of the detector's accept function
		okSite := false
		// every function value made of s.Fn - a literal's closure, or a method value - is made
		// by a function that asked a detector, holds that detector's accept function, and
		// invokes it before the advance
		var closures []*ssa.MakeClosure
		closed := true
		if s.Fn.Parent() != nil {
			for _, b := range s.Fn.Parent().Blocks {
				for _, in := range b.Instrs {
					if mc, isMC := in.(*ssa.MakeClosure); isMC && mc.Fn == ssa.Value(s.Fn) {
						closures = append(closures, mc)
					}
				}
			}
		} else {
			// a named function: never reached through an interface, and called directly only by
			// literals that forward to it and are themselves commit closures
			closed = s.Fn.Signature.Recv() == nil || !c.methodInSomeInterface(s.Fn)
			var ops []*ssa.Value
			for _, g := range c.Fns {
				for _, b := range g.Blocks {
					for _, in := range b.Instrs {
						ops = in.Operands(ops[:0])
						for _, op := range ops {
							if op != nil && *op == ssa.Value(s.Fn) {
								if fw := forwardingLiteral(g); fw != nil && fw == in {
									continue
								}
								closed = false
							}
						}
						if mc, isMC := in.(*ssa.MakeClosure); isMC {
							if lit, isF := mc.Fn.(*ssa.Function); isF && forwardingLiteral(lit) != nil {
								if cf := commitFnOf(mc); cf != nil && cf.body == s.Fn {
									closures = append(closures, mc)
								}
							}
						}
						if mc, isMC := in.(*ssa.MakeClosure); isMC {
							if w, isF := mc.Fn.(*ssa.Function); isF && strings.HasPrefix(w.Synthetic, "bound method wrapper") {
								if cf := commitFnOf(mc); cf != nil && cf.body == s.Fn {
									closures = append(closures, mc)
								} else if cf == nil && len(findCalls(w, func(string) bool { return true })) == 1 && findCalls(w, func(string) bool { return true })[0].Call.StaticCallee() == s.Fn {
									closed = false // a method value of s.Fn that could not be resolved
								}
							}
						}
					}
				}
			}
		}
		okSite = closed && len(closures) > 0
		for _, mc := range closures {
			cf := commitFnOf(mc)
			if cf == nil || cf.body != s.Fn {
				okSite = false
				continue
			}
			var accepts []ssa.Value
			for _, b := range mc.Parent().Blocks {
				for _, in := range b.Instrs {
					if cl, ok := in.(*ssa.Call); ok && cl.Call.IsInvoke() && cl.Call.Method.Name() == "Check" {
						if a := resultValue(cl, 0); a != nil {
							accepts = append(accepts, a)
						}
					}
				}
			}
			var acceptCall ssa.Instruction
			for _, b := range s.Fn.Blocks {
				for _, in := range b.Instrs {
					if cl, ok := in.(*ssa.Call); ok && !cl.Call.IsInvoke() && isFuncBoolType(cl.Call.Value.Type()) {
						bv := cf.bound(cl.Call.Value)
						for _, a := range accepts {
							if bv != nil && bv == a {
								acceptCall = in
							}
						}
					}
				}
			}
			if acceptCall == nil || !instrDominates(acceptCall, s.Call) {
				okSite = false
			}
		}
		r.Check(okSite, "replay-check", "updateRemoteSequenceNumber<-"+short(s.Fn), c.ipos(s.Call), "advanced only when the replay window commits the record", "the highest accepted sequence number is advanced outside the commit closure of a replay marker")
	}
}

// negated is a placeholder for guards whose success is `false` (unused result keeps vet quiet).
func negated(call *ssa.Call) ssa.Value { return call }

// fieldOfReturnedStruct: for `return T{..., f: v, ...}, ...` find v.
func fieldOfReturnedStruct(ret *ssa.Return, idx int, field string) ssa.Value {
	v := unspill(ret.Results[idx])
	u, ok := v.(*ssa.UnOp)
	if !ok || u.Op != token.MUL {
		return nil
	}
	al, ok := u.X.(*ssa.Alloc)
	if !ok {
		return nil
	}
	for _, ref := range *al.Referrers() {
		if fa, ok := ref.(*ssa.FieldAddr); ok {
			if _, f, _, _ := fieldOfAddr(fa); f == field {
				for _, r2 := range *fa.Referrers() {
					if st, ok := r2.(*ssa.Store); ok {
						return st.Val
					}
				}
			}
		}
	}
	return nil
}

// ruleReplayWindow (C06): detectors are constructed with the configured window and the
// protocol's maximum sequence number, one per epoch.
func ruleReplayWindow(c *Ctx, r *Report) {
	const rule = "replay-window-source"
	sites := c.CallsTo(func(n string) bool { return strings.HasSuffix(n, "replaydetector.New") })
	nInst := 0
	for _, s := range sites {
		call := s.Call.(*ssa.Call)
		key := short(s.Fn)
		r.Sites++
		ls := c.Origins(call.Call.Args[0], 0)
		r.Check(allLeaves(ls, func(v ssa.Value) bool { return isFieldLoad(v, "dtls.Conn", "replayProtectionWindow") }), rule, key+":window", c.ipos(call), "window = Conn.replayProtectionWindow", "replay window size does not come from the connection's configured window: "+c.describeAll(ls))
		// the maximum: a constant here, or a parameter of a shared private helper whose every call
		// site passes a constant (each call site is then an instance of its own)
		type inst struct {
			v   ssa.Value
			in  *ssa.Function
			pos string
		}
		var insts []inst
		var resolve func(v ssa.Value, in *ssa.Function, pos string, d int)
		resolve = func(v ssa.Value, in *ssa.Function, pos string, d int) {
			if p, isP := v.(*ssa.Parameter); isP && d < 4 {
				if callers, closed := c.staticCallers(in); closed && len(callers) > 0 {
					for _, cs := range callers {
						args := cs.Call.Common().Args
						if pi := paramIndex(p); pi >= 0 && pi < len(args) {
							resolve(args[pi], cs.Fn, c.ipos(cs.Call.(ssa.Instruction)), d+1)
						}
					}
					return
				}
			}
			insts = append(insts, inst{v, in, pos})
		}
		resolve(call.Call.Args[1], s.Fn, c.ipos(call), 0)
		for _, it := range insts {
			nInst++
			k, isC := constInt(it.v)
			u := uint64(k)
			if cst, ok := it.v.(*ssa.Const); ok && cst.Value != nil {
				if uv, ok2 := constantUint64(cst); ok2 {
					u, isC = uv, true
				}
			}
			want := uint64(1)<<48 - 1
			if m13 := c.Fn("(*dtls.Conn).protectedReplayMarker"); m13 != nil {
				for _, uf := range c.unitFuncs(m13) {
					if uf == it.in {
						want = ^uint64(0) // DTLS 1.3: 64-bit record numbers
					}
				}
			}
			r.Check(isC && u == want, rule, short(it.in)+":max-seq", it.pos, fmt.Sprintf("max sequence %#x", u), fmt.Sprintf("detector's maximum sequence number is %#x, the protocol's is %#x", u, want))
		}
		// per-epoch: appended to Common.ReplayDetector inside a loop bounded by the epoch
		stored := false
		for _, ref := range *call.Referrers() {
			_ = ref
			stored = true
		}
		_ = stored
	}
	r.Floor(rule, nInst, 2)
	// the connection's window comes from the effective configuration value
	for _, st := range c.StoresTo("dtls.Conn", "replayProtectionWindow") {
		ls := c.Origins(st.Val, 0)
		r.Check(allLeaves(ls, func(v ssa.Value) bool {
			return isFieldLoad(v, "dtls.handshakeConfig", "replayProtectionWindow") || isFieldLoad(v, "dtls.connConfigValues", "replayProtectionWindow") || strings.Contains(c.describe(v), "replayProtectionWindow")
		}), rule, short(st.Fn)+":Conn.replayProtectionWindow", c.ipos(st.Instr), "from the resolved configuration", "Conn.replayProtectionWindow is not taken from the resolved configuration: "+c.describeAll(ls))
	}
	if fn := c.need(r, rule, "dtls.effectiveReplayProtectionWindow"); fn != nil {
		// returns the parameter when positive, else the default constant 64
		for _, v := range []int64{-1, 0, 1, 33, 64, 100, 128} {
			vv := v
			w := (&Walk{Fn: fn, Assume: func(x ssa.Value) (Val, bool) {
				if x == ssa.Value(fn.Params[0]) {
					return vInt(vv), true
				}
				return unknown, false
			}}).FromEntry()
			good := len(w.Returns) == 1
			if good {
				res := w.Returns[0].Raw[0]
				val := w.Returns[0].Vals[0]
				if vv <= 0 {
					k, isC := constInt(res)
					good = (isC && k == 64) || val == vInt(64)
				} else {
					// the configured size, or that size rounded up to the next whole word of the
					// detector's bitmap: never a smaller window than was asked for
					good = res == ssa.Value(fn.Params[0]) || (val.Kind == 3 && val.I >= vv && val.I < vv+64)
				}
			}
			r.Check(good, rule, fmt.Sprintf("effectiveReplayProtectionWindow(%d)", vv), c.pos(fn.Pos()), "configured value if positive (rounded up by less than one 64-bit word at most), else 64", "effectiveReplayProtectionWindow does not return the configured value (or 64 for non-positive input): the window is smaller than configured, or far larger")
		}
	}
	// every option writer of the config value
	for _, st := range c.StoresTo("dtls.dtlsConfig", "ReplayProtectionWindow") {
		r.Note(rule, "writer:"+short(st.Fn), c.ipos(st.Instr), "writes the configured window")
	}
}

func constantUint64(c *ssa.Const) (uint64, bool) {
	if c.Value == nil {
		return 0, false
	}
	if u, ok := constInt(c); ok && u >= 0 {
		return uint64(u), true
	}
	s := c.Value.ExactString()
	var u uint64
	if _, err := fmt.Sscan(s, &u); err == nil {
		return u, true
	}
	return 0, false
}

// readDelivery is one place where something is handed to Read through Conn.decrypted: a send (or
// a select case) on the channel, or - when the function that sends only passes on a parameter of
// its own and all of its callers are known - each call of that function, with the argument there.
type readDelivery struct {
	fn      *ssa.Function
	in      ssa.Instruction
	sent    ssa.Value // what is sent, interface wrapping removed
	payload bool      // bytes (record payload) and not an error / EOF signal
}

func (c *Ctx) readDeliveries() []readDelivery {
	var out []readDelivery
	var add func(fn *ssa.Function, in ssa.Instruction, v ssa.Value, d int)
	add = func(fn *ssa.Function, in ssa.Instruction, v ssa.Value, d int) {
		if mi, ok := v.(*ssa.MakeInterface); ok {
			v = mi.X
		}
		if p, isP := v.(*ssa.Parameter); isP && d < 2 && types.IsInterface(p.Type()) && p.Parent() == fn {
			if sites, closed := c.staticCallers(fn); closed && len(sites) > 0 {
				for _, s := range sites {
					ci, isI := s.Call.(ssa.Instruction)
					if pi := paramIndex(p); isI && pi >= 0 && pi < len(s.Call.Common().Args) {
						add(s.Fn, ci, s.Call.Common().Args[pi], d+1)
					}
				}
				return
			}
		}
		out = append(out, readDelivery{fn, in, v, isPayloadValue(v)})
	}
	for _, fn := range c.Fns {
		for _, b := range fn.Blocks {
			for _, in := range b.Instrs {
				switch x := in.(type) {
				case *ssa.Send:
					if isFieldLoad(x.Chan, "dtls.Conn", "decrypted") {
						add(fn, in, x.X, 0)
					}
				case *ssa.Select:
					for _, st := range x.States {
						if st.Dir == types.SendOnly && isFieldLoad(st.Chan, "dtls.Conn", "decrypted") {
							add(fn, in, st.Send, 0)
						}
					}
				}
			}
		}
	}
	return out
}

// ruleEpochZeroAppData (C05-4, C07-3): application data in an epoch-0 record is never delivered;
// the only byte-slice sender on Conn.decrypted is the application-data consumer.
func ruleEpochZeroAppData(c *Ctx, r *Report) {
	const rule = "epoch0-appdata"
	n := 0
	for _, dl := range c.readDeliveries() {
		fn, in, sent := dl.fn, dl.in, dl.sent
		r.Sites++
		if !dl.payload {
			r.Note(rule, "send:"+short(fn), c.ipos(in), "non-payload send on Conn.decrypted (error/EOF signalling)")
			continue
		}
		n++
		key := short(fn)
		if sent == nil || !allLeaves(c.Origins(sent, 0), func(v ssa.Value) bool { return isFieldLoad(v, "pkg/protocol.ApplicationData", "Data") }) {
			r.Bad(rule, "payload-send:"+key, c.ipos(in), "a payload that is not the Data of an ApplicationData record is delivered to Read")
			continue
		}
		// unreachable when the record's own header epoch is 0 (on the application-data branch
		// when the consumer sits inside the content-type dispatch)
		as := []atomAssume{
			{mLoad("pkg/protocol/recordlayer.Header", "Epoch"), vInt(0)},
			{mTypeAssertOK("pkg/protocol.ApplicationData"), vBool(true)},
			{func(v ssa.Value) bool {
				ex, ok := v.(*ssa.Extract)
				if !ok || ex.Index != 1 {
					return false
				}
				ta, ok := ex.Tuple.(*ssa.TypeAssert)
				return ok && ta.CommaOk && namedOf(ta.AssertedType) != "pkg/protocol.ApplicationData"
			}, vBool(false)},
		}
		w := (&Walk{Fn: fn, Assume: assumeAll(as...)}).FromEntry()
		r.Check(!w.Reached[in], rule, key+":deliver", c.ipos(in), "with header epoch 0 the delivery is unreachable", "application data carried in an epoch-0 (unprotected, unauthenticated) record can be delivered to Read")
		for _, b2 := range fn.Blocks {
			for _, in2 := range b2.Instrs {
				if call, ok := in2.(*ssa.Call); ok && !call.Call.IsInvoke() && isFuncBoolType(call.Call.Value.Type()) {
					if _, isF := call.Call.Value.(*ssa.Function); !isF {
						r.Check(!w.Reached[in2], rule, key+":commit", c.ipos(in2), "with header epoch 0 the replay commit is unreachable", "an epoch-0 application data record commits a replay slot")
					}
				}
			}
		}
		// and the function is left without either: the record is refused or dropped.
		// (Until repair a50b364 this obligation demanded an error outcome; the
		// property demands that the record has no effect, and an error - with the
		// alert it caused - was itself an effect anybody could provoke.)
		r.Check(len(w.Returns) > 0 && !w.overflow, rule, key+":refused", c.pos(fn.Pos()), "epoch-0 application data leaves the consumer without delivery and without a replay commit (dropped or refused)", "with header epoch 0 the application-data consumer has no exit (the exploration is vacuous)")
	}
	r.Floor(rule, n, 1)
}

// ruleDecryptAuth (C05): every record-protection Decrypt reports success only after its
// authentication primitive accepted the record.
func ruleDecryptAuth(c *Ctx, r *Report) {
	const rule = "decrypt-authenticates"
	type inst struct {
		fn    string
		check func(string) bool
		what  string
	}
	n := 0
	for _, in := range []inst{
		{"(*pkg/crypto/ciphersuite.aead).decrypt", func(n string) bool { return n == "iface:crypto/cipher.AEAD.Open" }, "AEAD Open"},
		{"(*pkg/crypto/ciphersuite.ChaCha20Poly1305).Decrypt", func(n string) bool { return n == "iface:crypto/cipher.AEAD.Open" }, "AEAD Open"},
		{"(*pkg/crypto/ciphersuite.CBC).Decrypt", nameIs("crypto/hmac.Equal", "crypto/subtle.ConstantTimeCompare", "bytes.Equal"), "MAC comparison"},
	} {
		fn := c.need(r, rule, in.fn)
		if fn == nil {
			continue
		}
		r.Sites += len(fn.Blocks)
		chk := findCalls(fn, in.check)
		if len(chk) != 1 {
			r.Bad(rule, short(fn), c.pos(fn.Pos()), fmt.Sprintf("%d %s calls (expected 1)", len(chk), in.what))
			continue
		}
		// protected-content success returns: nil error and not the ChangeCipherSpec passthrough
		for _, blk := range fn.Blocks {
			ret, ok := blk.Instrs[len(blk.Instrs)-1].(*ssa.Return)
			if !ok || !isNilConst(unspill(ret.Results[1])) {
				continue
			}
			// passthrough: returns the input parameter unchanged under ContentType == ChangeCipherSpec
			if p, isP := unspill(ret.Results[0]).(*ssa.Parameter); isP && p.Name() == "in" {
				w := (&Walk{Fn: fn, Assume: assumeAll(atomAssume{func(v ssa.Value) bool {
					bo, ok := v.(*ssa.BinOp)
					if !ok || bo.Op != token.EQL {
						return false
					}
					k, isC := constInt(bo.Y)
					return isC && k == 20 && strings.Contains(shapeOf(bo.X, 0), "ContentType")
				}, vBool(false)})}).FromEntry()
				r.Check(!w.Reached[ret], rule, short(fn)+":passthrough", c.ipos(ret), "unauthenticated passthrough only for ChangeCipherSpec", "a record other than ChangeCipherSpec can be returned without decryption/authentication")
				continue
			}
			n++
			var rv ssa.Value = chk[0]
			if chk[0].Call.Signature().Results().Len() == 2 {
				rv = errResult(chk[0])
			}
			ok2, why := guardedBy(chk[0], rv, ret)
			r.Check(ok2, rule, short(fn), c.ipos(ret), "plaintext returned only after the "+in.what+" succeeded", "Decrypt returns plaintext although the "+in.what+" failed or was skipped: "+why)
		}
	}
	// CBC: padding must be good as well
	if fn := c.Fn("(*pkg/crypto/ciphersuite.CBC).Decrypt"); fn != nil {
		pads := findCalls(fn, nameIs("pkg/crypto/ciphersuite.examinePadding"))
		// the padding may be examined in a helper of the same package that judges it and hands
		// back a verdict: the walk then starts at the call of that helper and follows into it
		var viaHelper *ssa.Call
		if len(pads) == 0 {
			for _, hc := range findCalls(fn, func(string) bool { return true }) {
				g := hc.Call.StaticCallee()
				if g == nil || g.Pkg != fn.Pkg || len(g.Blocks) == 0 {
					continue
				}
				if hp := findCalls(g, nameIs("pkg/crypto/ciphersuite.examinePadding")); len(hp) == 1 {
					if viaHelper != nil {
						pads = nil
						break
					}
					viaHelper, pads = hc, hp
				}
			}
		}
		if len(pads) == 1 {
			good := resultValue(pads[0], 1)
			for _, blk := range fn.Blocks {
				ret, ok := blk.Instrs[len(blk.Instrs)-1].(*ssa.Return)
				if !ok || !isNilConst(unspill(ret.Results[1])) {
					continue
				}
				if _, isP := unspill(ret.Results[0]).(*ssa.Parameter); isP {
					continue
				}
				w := (&Walk{Fn: fn, Assume: assumeAll(atomAssume{func(v ssa.Value) bool {
					bo, ok := v.(*ssa.BinOp)
					return ok && (bo.X == good || bo.Y == good) && bo.Op == token.NEQ
				}, vBool(true)}, atomAssume{func(v ssa.Value) bool {
					bo, ok := v.(*ssa.BinOp)
					return ok && (bo.X == good || bo.Y == good) && bo.Op == token.EQL
				}, vBool(false)})})
				if viaHelper != nil {
					g := viaHelper.Call.StaticCallee()
					w.Follow = func(callee *ssa.Function) bool { return callee == g }
					w = w.At(viaHelper)
				} else {
					w = w.After(pads[0])
				}
				r.Check(!w.Reached[ret], rule, short(fn)+":padding", c.ipos(ret), "bad padding never yields plaintext", "CBC Decrypt returns plaintext although the padding check failed")
			}
		} else {
			r.Bad(rule, "(*pkg/crypto/ciphersuite.CBC).Decrypt:padding", "", "examinePadding call missing")
		}
	}
	r.Floor(rule, n, 3)
}

// commitFn is a function value a replay marker hands out, seen from the marker: a function
// literal with what it captured, or a method value with the receiver the marker built for it.
type commitFn struct {
	body *ssa.Function
	// bound maps a value inside body that names something the marker put into the function
	// value (a free variable, a field of the method value's receiver) to the marker's value;
	// nil for anything else
	bound func(v ssa.Value) ssa.Value
	// holds: the marker put v into the function value
	holds func(v ssa.Value) bool
}

// forwardingLiteral: a function literal whose whole body is `return g(...)` with g a named
// function of the same package; the call is returned.
func forwardingLiteral(f *ssa.Function) *ssa.Call {
	if f.Parent() == nil || len(f.Blocks) != 1 {
		return nil
	}
	var call *ssa.Call
	for _, in := range f.Blocks[0].Instrs {
		switch x := in.(type) {
		case *ssa.UnOp, *ssa.DebugRef:
		case *ssa.Call:
			if call != nil {
				return nil
			}
			call = x
		case *ssa.Return:
			if call == nil || len(x.Results) != 1 || x.Results[0] != ssa.Value(call) {
				return nil
			}
		default:
			return nil
		}
	}
	if call == nil {
		return nil
	}
	g := call.Call.StaticCallee()
	if g == nil || g.Parent() != nil || g.Pkg != f.Pkg || len(g.Blocks) == 0 {
		return nil
	}
	return call
}

func commitFnOfLiteral(mc *ssa.MakeClosure, f *ssa.Function, onlyStore func(ssa.Value) ssa.Value) *commitFn {
	binding := func(i int) ssa.Value {
		if i >= len(mc.Bindings) {
			return nil
		}
		b := mc.Bindings[i]
		if al, isAl := b.(*ssa.Alloc); isAl {
			// captured by reference: what the cell holds
			return onlyStore(al)
		}
		return b
	}
	return &commitFn{
		body: f,
		bound: func(v ssa.Value) ssa.Value {
			if u, isU := v.(*ssa.UnOp); isU && u.Op == token.MUL {
				v = u.X
			}
			for i, fv := range f.FreeVars {
				if ssa.Value(fv) == v {
					return binding(i)
				}
			}
			return nil
		},
		holds: func(v ssa.Value) bool {
			for i := range f.FreeVars {
				if binding(i) == v {
					return true
				}
			}
			return false
		},
	}
}

func commitFnOf(mc *ssa.MakeClosure) *commitFn {
	f, ok := mc.Fn.(*ssa.Function)
	if !ok {
		return nil
	}
	onlyStore := func(addr ssa.Value) ssa.Value {
		var val ssa.Value
		n := 0
		if refs := addr.Referrers(); refs != nil {
			for _, ref := range *refs {
				if st, isSt := ref.(*ssa.Store); isSt && st.Addr == addr {
					val = st.Val
					n++
				}
			}
		}
		if n != 1 {
			return nil
		}
		return val
	}
	if !strings.HasPrefix(f.Synthetic, "bound method wrapper") {
		if fw := forwardingLiteral(f); fw != nil {
			// a literal that only hands what it captured to a named function of the package:
			// that function is the commit function, its parameters stand for the captures
			g := fw.Call.StaticCallee()
			inner := commitFnOfLiteral(mc, f, onlyStore)
			argOf := func(v ssa.Value) ssa.Value {
				if u, isU := v.(*ssa.UnOp); isU && u.Op == token.MUL {
					v = u.X
				}
				p, isP := v.(*ssa.Parameter)
				if !isP || p.Parent() != g {
					return nil
				}
				pi := paramIndex(p)
				if pi < 0 || pi >= len(fw.Call.Args) {
					return nil
				}
				a := fw.Call.Args[pi]
				if b := inner.bound(a); b != nil {
					return b
				}
				return nil
			}
			return &commitFn{body: g, bound: argOf, holds: inner.holds}
		}
		return commitFnOfLiteral(mc, f, onlyStore)
	}
	// a method value: the wrapper calls the method with the bound receiver
	if len(mc.Bindings) != 1 || len(f.Blocks) == 0 {
		return nil
	}
	var method *ssa.Function
	for _, b := range f.Blocks {
		for _, in := range b.Instrs {
			if cl, isCall := in.(*ssa.Call); isCall {
				if g := cl.Call.StaticCallee(); g != nil && method == nil {
					method = g
				} else {
					return nil
				}
			}
		}
	}
	recv, isAl := mc.Bindings[0].(*ssa.Alloc)
	if method == nil || len(method.Params) == 0 || len(method.Blocks) == 0 || !isAl {
		return nil
	}
	if _, isSt := derefType(recv.Type()).Underlying().(*types.Struct); !isSt {
		return nil
	}
	// the receiver is built here, field by field, and goes nowhere but into the method value
	fields := map[int]ssa.Value{}
	for _, ref := range *recv.Referrers() {
		switch x := ref.(type) {
		case *ssa.FieldAddr:
			v := onlyStore(x)
			if v == nil || fields[x.Field] != nil {
				return nil
			}
			fields[x.Field] = v
		case *ssa.MakeClosure:
			if x != mc {
				return nil
			}
		case *ssa.DebugRef:
		default:
			return nil
		}
	}
	// ... and the method does not change its fields
	for _, b := range method.Blocks {
		for _, in := range b.Instrs {
			if st, isSt := in.(*ssa.Store); isSt {
				if fa, isFA := st.Addr.(*ssa.FieldAddr); isFA && fa.X == ssa.Value(method.Params[0]) {
					return nil
				}
			}
		}
	}
	return &commitFn{
		body: method,
		bound: func(v ssa.Value) ssa.Value {
			u, isU := v.(*ssa.UnOp)
			if !isU || u.Op != token.MUL {
				return nil
			}
			fa, isFA := u.X.(*ssa.FieldAddr)
			if !isFA || fa.X != ssa.Value(method.Params[0]) {
				return nil
			}
			return fields[fa.Field]
		},
		holds: func(v ssa.Value) bool {
			for _, x := range fields {
				if x == v {
					return true
				}
			}
			return false
		},
	}
}

// ruleCommitMarksWindow (C06): the commit function a replay marker hands to the record consumers
// marks the sequence number in the detector on every path: it is either the detector's own
// accept function, or a function literal in which every path to a return passes a call of it.
// A commit that returns without marking leaves the delivered record replayable.
func ruleCommitMarksWindow(c *Ctx, r *Report) {
	const rule = "commit-marks-window"
	n := 0
	for _, s := range c.CallsTo(func(name string) bool { return strings.HasSuffix(name, "ReplayDetector.Check") }) {
		call, ok := s.Call.(*ssa.Call)
		if !ok {
			continue
		}
		fn := s.Fn
		accept := resultValue(call, 0)
		if accept == nil {
			r.Bad(rule, short(fn), c.ipos(call), "the detector's accept function is discarded: nothing can mark the record as received")
			continue
		}
		r.Sites += len(fn.Blocks)
		// what the marker returns as its commit function
		for _, b := range fn.Blocks {
			ret, isRet := b.Instrs[len(b.Instrs)-1].(*ssa.Return)
			if !isRet || len(ret.Results) != 2 {
				continue
			}
			v := unspill(ret.Results[0])
			if isNilConst(v) {
				continue
			}
			n++
			key := fmt.Sprintf("%s:commit", short(fn))
			if v == accept {
				r.OK(rule, key, c.ipos(ret), "the commit function is the detector's accept function")
				continue
			}
			mc, isMC := v.(*ssa.MakeClosure)
			if !isMC {
				r.Bad(rule, key, c.ipos(ret), "the commit function handed out is neither the detector's accept function nor a function literal around it")
				continue
			}
			cf := commitFnOf(mc)
			if cf == nil {
				r.Bad(rule, key, c.ipos(ret), "the commit function handed out is neither a function literal nor a method value whose receiver is built here")
				continue
			}
			lit := cf.body
			isAcceptCall := func(in ssa.Instruction) bool {
				cl, ok := in.(*ssa.Call)
				if !ok || cl.Call.IsInvoke() {
					return false
				}
				return cf.bound(cl.Call.Value) == accept
			}
			if !cf.holds(accept) {
				r.Bad(rule, key, c.ipos(ret), "the commit function literal does not capture the detector's accept function")
				continue
			}
			// what the commit function reports ("this was the newest record of its epoch": the
			// condition for a path challenge / address switch) is the detector's own answer
			reportsAccept := true
			var acceptCalls []ssa.Value
			for _, lb := range lit.Blocks {
				for _, li := range lb.Instrs {
					if isAcceptCall(li) {
						acceptCalls = append(acceptCalls, li.(*ssa.Call))
					}
				}
			}
			for _, answer := range []bool{true, false} {
				ans := answer
				wl := (&Walk{Fn: lit, Assume: func(v ssa.Value) (Val, bool) {
					for _, ac := range acceptCalls {
						if v == ac {
							return vBool(ans), true
						}
					}
					return unknown, false
				}}).FromEntry()
				if len(wl.Returns) == 0 {
					reportsAccept = false
				}
				// the detector said no: the result is no on every path. The detector said yes:
				// the result can be yes (a further condition - the record's epoch is not one the
				// peer has left behind - may narrow it, never widen it)
				canBeTrue := false
				for _, ro := range wl.Returns {
					if len(ro.Vals) != 1 {
						reportsAccept = false
						continue
					}
					definitelyFalse := ro.Vals[0].Kind == 1 && !ro.Vals[0].B
					if !ans && !definitelyFalse {
						reportsAccept = false
					}
					if ans && !definitelyFalse {
						canBeTrue = true
					}
				}
				if ans && !canBeTrue {
					reportsAccept = false
				}
			}
			r.Check(reportsAccept, "commit-reports-latest", key, c.ipos(ret), "the commit function never reports a record as newest that the detector did not, and can report one that it did", "the commit function's result does not follow the detector's answer: a record the detector did not call the newest is reported as newest (or none ever is), which is what gates path challenges and the switch of the peer address")
			// one detector per epoch: "newest" must also mean "of an epoch the peer has not left
			// behind" (RFC 9146 section 6: newer in both epoch and sequence number). With every
			// comparison of the record's epoch against the connection's remote epoch answering
			// "older", the commit function never reports the record as newest
			perEpoch := false
			{
				var recv ssa.Value = call.Call.Value
				if call.Call.IsInvoke() {
					recv = call.Call.Value
				} else if len(call.Call.Args) > 0 {
					recv = call.Call.Args[0]
				}
				for _, l := range append(c.Origins(recv, 0), recv) {
					x := l
					if u, ok := x.(*ssa.UnOp); ok {
						x = u.X
					}
					if ia, ok := x.(*ssa.IndexAddr); ok {
						if _, isK := ia.Index.(*ssa.Const); !isK {
							if _, f, _, ok := fieldLoad(ia.X); ok && f == "ReplayDetector" {
								perEpoch = true
							}
						}
					}
				}
			}
			if perEpoch {
				matched := 0
				isRemoteEpoch := func(v ssa.Value) bool {
					v = stripConv(v)
					if cl, ok := v.(*ssa.Call); ok && strings.HasSuffix(calleeName(&cl.Call), ".RemoteEpoch") {
						return true
					}
					_, f, _, ok := fieldLoad(v)
					return ok && (f == "remoteEpoch" || f == "RemoteEpoch")
				}
				isRecordEpoch := func(v ssa.Value) bool {
					v = stripConv(v)
					b := cf.bound(v)
					if b == nil {
						return false
					}
					if p, isP := b.(*ssa.Parameter); isP && strings.Contains(strings.ToLower(p.Name()), "epoch") {
						return true
					}
					// a copy of the received header's epoch
					if _, f, _, ok := fieldLoad(b); ok && f == "Epoch" {
						return true
					}
					return false
				}
				ws := (&Walk{Fn: lit, Follow: func(f *ssa.Function) bool { return false }, Assume: func(v ssa.Value) (Val, bool) {
					for _, ac := range acceptCalls {
						if v == ac {
							return vBool(true), true
						}
					}
					bo, ok := v.(*ssa.BinOp)
					if !ok {
						return unknown, false
					}
					var epochLeft bool
					switch {
					case isRecordEpoch(bo.X) && isRemoteEpoch(bo.Y):
						epochLeft = true
					case isRemoteEpoch(bo.X) && isRecordEpoch(bo.Y):
						epochLeft = false
					default:
						return unknown, false
					}
					// record epoch < remote epoch
					var val bool
					switch bo.Op {
					case token.LSS, token.LEQ:
						val = epochLeft
					case token.GTR, token.GEQ:
						val = !epochLeft
					case token.EQL:
						val = false
					case token.NEQ:
						val = true
					default:
						return unknown, false
					}
					matched++
					return vBool(val), true
				}}).FromEntry()
				stale := ""
				for _, ro := range ws.Returns {
					if len(ro.Vals) == 1 && !(ro.Vals[0].Kind == 1 && !ro.Vals[0].B) {
						stale = c.ipos(ro.Ret)
					}
				}
				if matched == 0 {
					r.Bad("commit-reports-latest", key+":stale-epoch", c.ipos(ret), "with one replay detector per epoch the commit function reports the highest number of any epoch as the newest record, and never compares the record's epoch with the connection's remote epoch: a captured record of an epoch the peer has left behind, replayed from another address, nominates that address for a path challenge")
				} else {
					r.Check(stale == "", "commit-reports-latest", key+":stale-epoch", c.ipos(ret), "a record of an epoch the peer has left behind is never reported as newest", "a record whose epoch is older than the connection's remote epoch can still be reported as the newest one ("+stale+")")
				}
			}
			// the detector of the pinned dependency calls number 0 the latest whenever it accepts
			// it, also after later numbers of the epoch: "newest" must also mean "not below the
			// highest number accepted in the epoch". With every comparison of the record's number
			// against that position answering "below", the commit function never reports newest
			{
				matchedOv := 0
				isRecordSeq := func(v ssa.Value) bool {
					b := cf.bound(stripConv(v))
					if b == nil {
						return false
					}
					if p, isP := b.(*ssa.Parameter); isP && strings.Contains(strings.ToLower(p.Name()), "sequence") {
						return true
					}
					_, f, _, ok := fieldLoad(b)
					return ok && f == "SequenceNumber"
				}
				isHighest := func(v ssa.Value) bool {
					cl, ok := stripConv(v).(*ssa.Call)
					if !ok {
						return false
					}
					nm := calleeName(&cl.Call)
					if strings.HasSuffix(nm, ").highestRemoteSequenceNumber") {
						return true
					}
					if nm == "sync/atomic.LoadUint64" && len(cl.Call.Args) == 1 {
						if ia, isIA := cl.Call.Args[0].(*ssa.IndexAddr); isIA {
							_, f, _, okF := fieldLoad(ia.X)
							return okF && f == "RemoteSequenceNumber"
						}
					}
					return false
				}
				wo := (&Walk{Fn: lit, Follow: func(f *ssa.Function) bool { return false }, Assume: func(v ssa.Value) (Val, bool) {
					for _, ac := range acceptCalls {
						if v == ac {
							return vBool(true), true
						}
					}
					bo, ok := v.(*ssa.BinOp)
					if !ok {
						return unknown, false
					}
					var seqLeft bool
					switch {
					case isRecordSeq(bo.X) && isHighest(bo.Y):
						seqLeft = true
					case isHighest(bo.X) && isRecordSeq(bo.Y):
						seqLeft = false
					default:
						return unknown, false
					}
					// the record's number < the highest accepted
					var val bool
					switch bo.Op {
					case token.LSS, token.LEQ:
						val = seqLeft
					case token.GTR, token.GEQ:
						val = !seqLeft
					case token.EQL:
						val = false
					case token.NEQ:
						val = true
					default:
						return unknown, false
					}
					matchedOv++
					return vBool(val), true
				}}).FromEntry()
				overtaken := ""
				for _, ro := range wo.Returns {
					if len(ro.Vals) == 1 && !(ro.Vals[0].Kind == 1 && !ro.Vals[0].B) {
						overtaken = c.ipos(ro.Ret)
					}
				}
				if matchedOv == 0 {
					r.Bad("commit-reports-latest", key+":overtaken", c.ipos(ret), "the commit function takes the detector's word for newest and never compares the record's number with the highest number accepted in its epoch: the detector calls number 0 the latest whenever it accepts it, so the first record of an epoch, held back and delivered from another address after later records, nominates that address for a path validation")
				} else {
					r.Check(overtaken == "", "commit-reports-latest", key+":overtaken", c.ipos(ret), "a record below the highest number accepted in its epoch is never reported as newest", "a record whose number is below the highest accepted in its epoch can still be reported as the newest one ("+overtaken+")")
				}
			}
			w := &Walk{Fn: lit, Visit: func(in ssa.Instruction, _ Env) bool { return !isAcceptCall(in) }}
			w.FromEntry()
			r.Check(len(w.Returns) == 0, rule, key, c.ipos(ret), "every path of the commit function marks the sequence number in the detector", "the commit function can return without calling the detector's accept function: a record delivered on that path is not marked as received and every duplicate of it inside the window is delivered again")
		}
	}
	r.Floor(rule, n, 1)
}

// ruleSeqReconstruction (C06, DTLS 1.3): RFC 9147 4.2.2 reconstructs the full record number as the
// value congruent to the on-wire bits that is closest to highest+1. Structurally: window
// W = 1 << (8|16), mask W-1, candidate = (expected &^ mask) | (partial & mask); the candidate is
// moved up by W when candidate + W/2 <= expected and down by W when candidate > expected + W/2
// (and candidate >= W). The rule checks that both thresholds are half the window, that the
// shifts are one whole window and that the three outcomes exist - a wrong threshold accepts a
// record in the wrong window (replay slot and nonce of a different record number).
func ruleSeqReconstruction(c *Ctx, r *Report) {
	const rule = "seq-reconstruction"
	fn := c.need(r, rule, "dtls.reconstructSequenceNumber")
	if fn == nil {
		return
	}
	r.Sites += len(fn.Blocks)
	var W, H, E ssa.Value
	isConst := func(v ssa.Value, k int64) bool { x, ok := constInt(v); return ok && x == k }
	// the inputs: the on-wire bits and the S bit (parameters, or fields of a header handed in
	// whole), and the highest number accepted so far (the 64-bit parameter)
	isPartial := func(v ssa.Value) bool {
		v = stripConv(v)
		if p, isP := v.(*ssa.Parameter); isP {
			bt, isB := p.Type().Underlying().(*types.Basic)
			return isB && bt.Kind() == types.Uint16
		}
		_, f, _, ok := fieldLoad(v)
		return ok && f == "SequenceNumber"
	}
	isSeqBit := func(v ssa.Value) bool {
		if p, isP := v.(*ssa.Parameter); isP {
			bt, isB := p.Type().Underlying().(*types.Basic)
			return isB && bt.Kind() == types.Bool
		}
		_, f, _, ok := fieldLoad(v)
		return ok && f == "SeqBit"
	}
	for _, b := range fn.Blocks {
		for _, in := range b.Instrs {
			switch x := in.(type) {
			case *ssa.BinOp:
				switch {
				case x.Op == token.SHL && isConst(x.X, 1):
					W = x
				case x.Op == token.ADD && isConst(x.Y, 1):
					if p, isP := x.X.(*ssa.Parameter); isP {
						if bt, isB := p.Type().Underlying().(*types.Basic); isB && bt.Kind() == types.Uint64 {
							E = x
						}
					}
				}
			case *ssa.Phi:
				// the window chosen between the two constants
				// (any two constants of which a mask is made: the width obligation says
				// whether they are the right ones)
				nConst := 0
				for _, e := range x.Edges {
					if k, isC := constInt(e); isC && k > 1 {
						nConst++
					}
				}
				masked := false
				for _, ref := range *x.Referrers() {
					if bo, isBo := ref.(*ssa.BinOp); isBo && bo.Op == token.SUB && bo.X == ssa.Value(x) && isConst(bo.Y, 1) {
						masked = true
					}
				}
				if len(x.Edges) == 2 && nConst == 2 && masked && W == nil {
					W = x
				}
			}
		}
	}
	if W == nil || E == nil {
		r.Unk(rule, short(fn), c.pos(fn.Pos()), "window (1 << bits) or expected (highest+1) not found")
		return
	}
	// the width is 16 with the S bit, 8 without
	okBits := false
	{
		var phi *ssa.Phi
		var at ssa.Instruction
		want := map[bool]int64{true: 16, false: 8}
		if sh, ok := W.(*ssa.BinOp); ok {
			phi, _ = stripConv(sh.Y).(*ssa.Phi)
			at = sh
		} else if wp, ok := W.(*ssa.Phi); ok {
			phi = wp
			want = map[bool]int64{true: 1 << 16, false: 1 << 8}
			// the first use of the window after the choice
			for _, in := range wp.Block().Instrs {
				if _, isPhi := in.(*ssa.Phi); !isPhi && at == nil {
					at = in
				}
			}
		}
		if phi != nil && len(phi.Edges) == 2 && at != nil {
			vals := map[int64]bool{}
			for _, e := range phi.Edges {
				if k, isC := constInt(e); isC {
					vals[k] = true
				}
			}
			okBits = vals[want[true]] && vals[want[false]]
			for _, role := range []bool{true, false} {
				rl := role
				w := (&Walk{Fn: fn, Assume: func(v ssa.Value) (Val, bool) {
					if isSeqBit(v) {
						return vBool(rl), true
					}
					return unknown, false
				}})
				got := int64(-1)
				w.VisitRaw = func(in ssa.Instruction, _ Env, raw map[*ssa.Phi]ssa.Value) bool {
					if in == at {
						if k, isC := constInt(resolvePhis(phi, raw)); isC {
							got = k
						}
					}
					return true
				}
				w.FromEntry()
				if got != want[rl] {
					okBits = false
				}
			}
		}
	}
	r.Check(okBits, rule, short(fn)+":width", c.ipos(W.(ssa.Instruction)), "16 on-wire bits with the S bit, 8 without", "the reconstruction window is not 2^16 with the S bit and 2^8 without")
	for _, b := range fn.Blocks {
		for _, in := range b.Instrs {
			if bo, ok := in.(*ssa.BinOp); ok && bo.X == W {
				if (bo.Op == token.QUO && isConst(bo.Y, 2)) || (bo.Op == token.SHR && isConst(bo.Y, 1)) {
					H = bo
				}
			}
		}
	}
	// candidate: the value returned as it is
	var C ssa.Value
	var rets []ssa.Value
	for _, b := range fn.Blocks {
		if ret, ok := b.Instrs[len(b.Instrs)-1].(*ssa.Return); ok {
			rets = append(rets, unspill(ret.Results[0]))
		}
	}
	for _, v := range rets {
		if bo, ok := v.(*ssa.BinOp); ok && bo.Op == token.OR {
			C = bo
		}
	}
	if C == nil || H == nil {
		r.Bad(rule, short(fn), c.pos(fn.Pos()), "candidate (masked merge) or half window (W/2) not found: the reconstruction does not follow RFC 9147 4.2.2")
		return
	}
	// candidate = (E &^ M) | (partial & M), M = W-1
	okCand := false
	if or, ok := C.(*ssa.BinOp); ok {
		isMask := func(v ssa.Value) bool {
			bo, ok := v.(*ssa.BinOp)
			return ok && bo.Op == token.SUB && bo.X == W && isConst(bo.Y, 1)
		}
		isNotMask := func(v ssa.Value) bool {
			u, ok := v.(*ssa.UnOp)
			return ok && u.Op == token.XOR && isMask(u.X)
		}
		hiOK, loOK := false, false
		for _, side := range []ssa.Value{or.X, or.Y} {
			bo, ok := side.(*ssa.BinOp)
			if !ok {
				continue
			}
			switch bo.Op {
			case token.AND:
				for _, pr := range [][2]ssa.Value{{bo.X, bo.Y}, {bo.Y, bo.X}} {
					if pr[0] == E && isNotMask(pr[1]) {
						hiOK = true
					}
					if isPartial(pr[0]) && isMask(pr[1]) {
						loOK = true
					}
				}
			case token.AND_NOT:
				if bo.X == E && isMask(bo.Y) {
					hiOK = true
				}
			}
		}
		okCand = hiOK && loOK
	}
	r.Check(okCand, rule, short(fn)+":candidate", c.ipos(C.(ssa.Instruction)), "candidate = (expected &^ mask) | (partial & mask)", "the candidate is not the expected number with its low bits replaced by the on-wire bits")
	// thresholds
	var terms []string
	okT := true
	nCmp := 0
	for _, b := range fn.Blocks {
		for _, in := range b.Instrs {
			bo, ok := in.(*ssa.BinOp)
			if !ok {
				continue
			}
			switch bo.Op {
			case token.LSS, token.LEQ, token.GTR, token.GEQ:
			default:
				continue
			}
			for _, pr := range [][2]ssa.Value{{bo.X, bo.Y}, {bo.Y, bo.X}} {
				add, isAdd := pr[0].(*ssa.BinOp)
				if !isAdd || add.Op != token.ADD {
					continue
				}
				var base, term ssa.Value
				switch {
				case add.X == C || add.X == E:
					base, term = add.X, add.Y
				case add.Y == C || add.Y == E:
					base, term = add.Y, add.X
				default:
					continue
				}
				other := pr[1]
				if (base == C && other == E) || (base == E && other == C) {
					nCmp++
					terms = append(terms, shapeOf(term, 0))
					if term != H {
						okT = false
					}
				}
			}
		}
	}
	r.Check(okT && nCmp == 2, rule, short(fn)+":thresholds", c.pos(fn.Pos()), "both window moves are decided at half the window", fmt.Sprintf("the candidate is moved to another window at thresholds %v instead of half the window (W/2) on both sides: records up to a whole window away are attributed to the wrong record number", terms))
	// outcomes
	up, down, same := false, false, false
	for _, v := range rets {
		if v == C {
			same = true
		}
		if bo, ok := v.(*ssa.BinOp); ok {
			if bo.Op == token.ADD && ((bo.X == C && bo.Y == W) || (bo.Y == C && bo.X == W)) {
				up = true
			}
			if bo.Op == token.SUB && bo.X == C && bo.Y == W {
				down = true
			}
		}
	}
	r.Check(up && down && same, rule, short(fn)+":outcomes", c.pos(fn.Pos()), "candidate, candidate+W, candidate-W", "the reconstruction does not return exactly the candidate or the candidate one whole window up or down")
}

// ruleDetectorTableBounded: the per-epoch replay detector table grows lazily up to the epoch a
// record header claims; the claim is unauthenticated, so construction of a detector must be
// unreachable for a record whose epoch is beyond the current read epoch (C06: one detector per
// epoch really entered; C08: memory bounded against forged headers).
func ruleDetectorTableBounded(c *Ctx, r *Report) {
	fn := c.need(r, "replay-window-bounded", "(*dtls.Conn).prepareLegacyPacket")
	if fn == nil {
		return
	}
	r.Sites += len(fn.Blocks)
	// semantic form: with a record epoch beyond the current read epoch no path from the
	// entry (helpers followed) reaches the construction of a replay detector, so the table
	// length stays bounded by the epochs the connection really entered.
	futureCmp := func(v ssa.Value) (Val, bool) {
		bo, ok := v.(*ssa.BinOp)
		if !ok {
			return unknown, false
		}
		isEp := func(x ssa.Value) bool {
			return allLeaves(c.Origins(x, 0), func(l ssa.Value) bool {
				return isFieldLoad(l, "pkg/protocol/recordlayer.Header", "Epoch")
			})
		}
		isRem := func(x ssa.Value) bool {
			ls := c.Origins(x, 0)
			return len(ls) > 0 && allLeaves(ls, func(l ssa.Value) bool {
				return isCallResult(l, func(n string) bool {
					return strings.HasSuffix(n, ").RemoteEpoch") || strings.HasSuffix(n, ".getRemoteEpoch")
				})
			})
		}
		var ans map[token.Token]bool
		switch {
		case isEp(bo.X) && isRem(bo.Y): // epoch ? remote, with epoch > remote
			ans = map[token.Token]bool{token.LEQ: false, token.LSS: false, token.EQL: false, token.GTR: true, token.GEQ: true, token.NEQ: true}
		case isRem(bo.X) && isEp(bo.Y):
			ans = map[token.Token]bool{token.LEQ: true, token.LSS: true, token.EQL: false, token.GTR: false, token.GEQ: false, token.NEQ: true}
		default:
			return unknown, false
		}
		if b, ok := ans[bo.Op]; ok {
			return vBool(b), true
		}
		return unknown, false
	}
	w := &Walk{Fn: fn, Follow: followSamePkg(fn), Assume: futureCmp}
	w.FromEntry()
	var grows []ssa.Instruction
	matched := false
	for in := range w.Reached {
		if cl, ok := in.(*ssa.Call); ok && strings.HasSuffix(calleeName(&cl.Call), "replaydetector.New") {
			grows = append(grows, in)
		}
		if bo, ok := in.(*ssa.BinOp); ok {
			if _, m := futureCmp(bo); m {
				matched = true
			}
		}
	}
	if !matched {
		r.Unk("replay-window-bounded", short(fn)+":future-epoch-builds-nothing", c.pos(fn.Pos()), "no comparison of the record epoch with the current read epoch found on the prepare path")
	} else {
		where := ""
		if len(grows) > 0 {
			where = c.ipos(grows[0])
		}
		r.Check(len(grows) == 0, "replay-window-bounded", short(fn)+":future-epoch-builds-nothing", c.pos(fn.Pos()), "a record whose epoch is beyond the current read epoch never reaches replaydetector.New", "a record with an epoch beyond the current read epoch can reach the lazily growing detector table ("+where+"): one forged header with epoch 65535 allocates 65536 replay windows")
	}
}

// ruleDeliveryCommits (C06): a record consumer that hands something to the application or to the
// handshake (payload into the decrypted channel, a reassembled message into the handshake cache)
// has marked the record in the replay window first, on every path: the invocation of the commit
// closure dominates the delivery. A delivery on a path that skipped the commit lets every copy
// of that record through the window check again.
func ruleDeliveryCommits(c *Ctx, r *Report) {
	const rule = "delivery-commits"
	isCommitCall := func(in ssa.Instruction) bool {
		call, ok := in.(*ssa.Call)
		if !ok || call.Call.IsInvoke() || call.Call.StaticCallee() != nil {
			return false
		}
		sig, ok := call.Call.Value.Type().Underlying().(*types.Signature)
		if !ok || sig.Params().Len() != 0 || sig.Results().Len() != 1 {
			return false
		}
		if bt, ok := sig.Results().At(0).Type().Underlying().(*types.Basic); !ok || bt.Kind() != types.Bool {
			return false
		}
		return allLeaves(c.Origins(call.Call.Value, 0), func(l ssa.Value) bool {
			if _, isP := l.(*ssa.Parameter); isP {
				return true
			}
			_, f, _, ok := fieldLoad(l)
			return ok && f == "markPacketAsValid"
		})
	}
	commitsOf := func(fn *ssa.Function) []ssa.Instruction {
		var out []ssa.Instruction
		for _, b := range fn.Blocks {
			for _, in := range b.Instrs {
				if isCommitCall(in) {
					out = append(out, in)
				}
			}
		}
		return out
	}
	// committedBefore: a commit call dominates `at` in its function, or the function is a private
	// helper and every one of its call sites is committed before (two levels)
	var committedBefore func(at ssa.Instruction, d int) bool
	committedBefore = func(at ssa.Instruction, d int) bool {
		fn := at.Parent()
		for _, cm := range commitsOf(fn) {
			if instrDominates(cm, at) {
				return true
			}
		}
		if d >= 2 {
			return false
		}
		sites, closed := c.staticCallers(fn)
		if !closed || len(sites) == 0 {
			return false
		}
		for _, s := range sites {
			ci, ok := s.Call.(ssa.Instruction)
			if !ok || !committedBefore(ci, d+1) {
				return false
			}
		}
		return true
	}
	n := 0
	toRead := map[*ssa.Function][]ssa.Instruction{}
	for _, dl := range c.readDeliveries() {
		if dl.payload {
			toRead[dl.fn] = append(toRead[dl.fn], dl.in)
		}
	}
	for _, fn := range c.Fns {
		if fn.Pkg == nil || fn.Pkg.Pkg.Name() != "dtls" || len(fn.Blocks) == 0 {
			continue
		}
		var deliveries []ssa.Instruction
		what := map[ssa.Instruction]string{}
		for _, in := range toRead[fn] {
			deliveries = append(deliveries, in)
			what[in] = "payload sent to the application (Conn.decrypted)"
		}
		for _, b := range fn.Blocks {
			for _, in := range b.Instrs {
				switch x := in.(type) {
				case *ssa.Call:
					if cal := x.Call.StaticCallee(); cal != nil && cal.Signature.Recv() != nil && namedOrType(cal.Signature.Recv().Type()) == "internal/flight.Cache" && cal.Name() == "Push" && isFieldLoad(x.Call.Args[0], "dtls.Conn", "handshakeCache") {
						// a *received* message: what is pushed comes out of the reassembly buffer
						if anyLeaf(c.Origins(x.Call.Args[1], 0), func(l ssa.Value) bool {
							return isCallResult(l, func(nm string) bool { return strings.HasSuffix(nm, "FragmentBuffer).Pop") })
						}) {
							deliveries = append(deliveries, in)
							what[in] = "reassembled handshake message pushed into the handshake cache"
						}
					}
				}
			}
		}
		if len(deliveries) == 0 {
			continue
		}
		r.Sites += len(fn.Blocks)
		for i, d := range deliveries {
			n++
			r.Check(committedBefore(d, 0), rule, fmt.Sprintf("%s:delivery%d", short(fn), i), c.ipos(d), "commit closure invoked on every path before: "+what[d], what[d]+" on a path that did not invoke the replay-window commit: a duplicate of that record passes the window check again and is delivered again")
		}
	}
	r.Floor(rule, n, 2)
}

func hasFuncBoolParam(fn *ssa.Function) bool {
	for _, p := range fn.Params {
		if sig, ok := p.Type().Underlying().(*types.Signature); ok && sig.Params().Len() == 0 && sig.Results().Len() == 1 {
			return true
		}
	}
	return false
}

// isPayloadValue: the value put on the delivery channel is record payload (bytes), not an error.
func isPayloadValue(v ssa.Value) bool {
	if mi, ok := v.(*ssa.MakeInterface); ok {
		v = mi.X
	}
	sl, ok := v.Type().Underlying().(*types.Slice)
	if !ok {
		return false
	}
	bt, ok := sl.Elem().Underlying().(*types.Basic)
	return ok && bt.Kind() == types.Byte
}

// failStateOK: what a (state, false) return hands back is the zero state, or the state a callee
// returned together with its own false on this path (the callee's failure state, itself zero by
// the same rule).
func failStateOK(ret *ssa.Return) bool {
	if isZeroStruct(ret.Results[0]) {
		return true
	}
	v := unspill(ret.Results[0])
	// a local cell filled once from the callee's result (and whose later field assignments do not
	// lie on the way to this return)
	if u, isLoad := v.(*ssa.UnOp); isLoad && u.Op == token.MUL {
		if al, isAl := u.X.(*ssa.Alloc); isAl {
			var whole ssa.Value
			n := 0
			for _, ref := range *al.Referrers() {
				switch x := ref.(type) {
				case *ssa.Store:
					if x.Addr == ssa.Value(al) {
						whole = x.Val
						n++
					}
				case *ssa.FieldAddr:
					for _, r2 := range *x.Referrers() {
						if st, isSt := r2.(*ssa.Store); isSt && st.Addr == ssa.Value(x) && instrReaches(st, ret) {
							return false
						}
					}
				}
			}
			if n == 1 {
				v = whole
			}
		}
	}
	ex, ok := v.(*ssa.Extract)
	if !ok || ex.Index != 0 {
		return false
	}
	call, ok := ex.Tuple.(*ssa.Call)
	if !ok || call.Call.StaticCallee() == nil || !inModule(call.Call.StaticCallee()) {
		return false
	}
	for _, ref := range *call.Referrers() {
		okv, isEx := ref.(*ssa.Extract)
		if !isEx || okv.Index != 1 {
			continue
		}
		for _, r2 := range *okv.Referrers() {
			switch x := r2.(type) {
			case *ssa.If:
				fb := x.Block().Succs[1]
				if len(fb.Preds) == 1 && (fb == ret.Block() || fb.Dominates(ret.Block())) {
					return true
				}
			case *ssa.UnOp:
				if x.Op != token.NOT {
					continue
				}
				for _, r3 := range *x.Referrers() {
					if iff, isIf := r3.(*ssa.If); isIf {
						fb := iff.Block().Succs[0]
						if len(fb.Preds) == 1 && (fb == ret.Block() || fb.Dominates(ret.Block())) {
							return true
						}
					}
				}
			}
		}
	}
	return false
}

// marksOwnRecord: a function that marks numbers it takes from the connection's own record of what it has
// accepted (the imported receive position), not from a received header
func (c *Ctx) marksOwnRecord(fn *ssa.Function) bool {
	if fn == nil {
		return false
	}
	n := 0
	for _, b := range fn.Blocks {
		for _, in := range b.Instrs {
			cl, ok := in.(*ssa.Call)
			if !ok || !cl.Call.IsInvoke() || cl.Call.Method.Name() != "Check" || len(cl.Call.Args) != 1 {
				continue
			}
			n++
			fromState := true
			seen := map[ssa.Value]bool{}
			var visit func(v ssa.Value, d int)
			visit = func(v ssa.Value, d int) {
				if v == nil || seen[v] || d > 10 {
					return
				}
				seen[v] = true
				switch x := stripConv(v).(type) {
				case *ssa.Const:
				case *ssa.Phi:
					for _, e := range x.Edges {
						visit(e, d+1)
					}
				case *ssa.BinOp:
					visit(x.X, d+1)
					visit(x.Y, d+1)
				case *ssa.Extract:
					// a component of what a pure arithmetic helper of the module computes from
					// its arguments (the range to mark, from the position and the window)
					if hc, ok := x.Tuple.(*ssa.Call); ok {
						if h := hc.Call.StaticCallee(); h != nil && inModule(h) && pureArithmetic(h) {
							for _, a := range hc.Call.Args {
								visit(a, d+1)
							}
							return
						}
					}
					fromState = false
				case *ssa.Call:
					if h := x.Call.StaticCallee(); h != nil && inModule(h) && pureArithmetic(h) {
						for _, a := range x.Call.Args {
							visit(a, d+1)
						}
						return
					}
					if calleeName(&x.Call) == "sync/atomic.LoadUint64" && len(x.Call.Args) == 1 {
						if ia, ok := x.Call.Args[0].(*ssa.IndexAddr); ok && addrIntoField(ia, tCom, "RemoteSequenceNumber") {
							return
						}
					}
					if nm := calleeName(&x.Call); nm == "builtin:min" || nm == "builtin:max" {
						for _, a := range x.Call.Args {
							visit(a, d+1)
						}
						return
					}
					fromState = false
				default:
					if _, f, _, ok := fieldLoad(stripConv(v)); ok && f == "replayProtectionWindow" {
						return
					}
					fromState = false
				}
			}
			visit(cl.Call.Args[0], 0)
			if !fromState {
				return false
			}
		}
	}
	return n > 0
}

// pureArithmetic: the function computes integers from its integer parameters and constants by
// arithmetic, comparisons, conversions and the min/max builtins - no memory, no other calls.
func pureArithmetic(fn *ssa.Function) bool {
	if len(fn.Blocks) == 0 {
		return false
	}
	for _, p := range fn.Params {
		if _, _, ok := isIntLike(p.Type()); !ok {
			return false
		}
	}
	for _, b := range fn.Blocks {
		for _, in := range b.Instrs {
			switch x := in.(type) {
			case *ssa.BinOp, *ssa.Convert, *ssa.Phi, *ssa.If, *ssa.Jump, *ssa.Return, *ssa.DebugRef, *ssa.ChangeType:
			case *ssa.UnOp:
				if x.Op == token.MUL || x.Op == token.ARROW {
					return false
				}
			case *ssa.Call:
				if nm := calleeName(&x.Call); nm != "builtin:min" && nm != "builtin:max" {
					return false
				}
			default:
				return false
			}
		}
	}
	return true
}
