package main

import (
	"crypto/sha256"
	"encoding/json"
	"fmt"
	"go/constant"
	"go/token"
	"go/types"
	"os"
	"path/filepath"
	"sort"
	"strings"

	"golang.org/x/tools/go/ssa"
)

// Rename resilience. The rules name the constructs they reason about (functions, types,
// fields) by the identifiers those constructs carry on the reviewed tree. A pure rename of an
// unexported identifier changes no behaviour, so it must not change a verdict. spec/symbols.json
// records, for the reviewed tree, a structural fingerprint of every function (signature and
// SSA shape with module-internal names abstracted away) and the shape of every named type.
// At load time a reviewed name that no longer exists is matched against the names that are new
// in the same package: when exactly one new construct has the same fingerprint it is the renamed
// construct, and the naming layer (short, namedOf, fieldName) reports it under its reviewed name.
// Every applied rename is listed in the evidence; an ambiguous or failed match changes nothing,
// and the rule that needs the anchor then reports it as undecided.

type symTable struct {
	Funcs map[string]string  `json:"funcs"` // reviewed short name -> fingerprint
	Types map[string]typeSym `json:"types"` // reviewed "pkgrel.Name" -> shape
	// Place: reviewed short name -> signature and static callers; a function that was renamed
	// *and* edited keeps its place in the call graph (second-chance match, see resolve)
	Place map[string]string   `json:"place,omitempty"`
	Note  string              `json:"note"`
	Pkgs  map[string][]string `json:"-"`
}

type typeSym struct {
	Kind    string     `json:"kind"`
	Fields  []fieldSym `json:"fields,omitempty"`
	Methods int        `json:"methods"`
}

type fieldSym struct {
	Name string `json:"name"`
	Type string `json:"type"`
}

// alias tables consulted by the naming layer
var (
	aliasType   = map[*types.TypeName]string{} // -> reviewed bare name
	aliasField  = map[*types.Var]string{}      // -> reviewed field name
	aliasFn     = map[*ssa.Function]string{}   // -> reviewed short name
	aliasReport []string
)

func resetAliases() {
	aliasType = map[*types.TypeName]string{}
	aliasField = map[*types.Var]string{}
	aliasFn = map[*ssa.Function]string{}
	aliasReport = nil
}

// fieldName is the reviewed name of a struct field.
func fieldName(v *types.Var) string {
	if n, ok := aliasField[v]; ok {
		return n
	}
	return v.Name()
}

func typeNameOf(tn *types.TypeName) string {
	if n, ok := aliasType[tn]; ok {
		return n
	}
	return tn.Name()
}

// rawShort is short() without aliasing.
func rawShort(fn *ssa.Function) string {
	s := fn.String()
	s = strings.ReplaceAll(s, modPath+"/", "")
	s = strings.ReplaceAll(s, modPath+".", "dtls.")
	return s
}

// typeDesc renders a type with module type names canonicalised through aliasType.
func typeDesc(t types.Type) string {
	return types.TypeString(t, nil)
}

func canonTypeString(t types.Type) string {
	var sb strings.Builder
	writeCanonType(&sb, t, 0)
	return sb.String()
}

func writeCanonType(sb *strings.Builder, t types.Type, d int) {
	if d > 6 {
		sb.WriteString("…")
		return
	}
	switch x := t.(type) {
	case *types.Alias:
		writeCanonType(sb, types.Unalias(x), d)
	case *types.Named:
		o := x.Obj()
		if o.Pkg() != nil {
			sb.WriteString(shortPath(o.Pkg().Path()))
			sb.WriteString(".")
		}
		sb.WriteString(typeNameOf(o))
		if ta := x.TypeArgs(); ta != nil && ta.Len() > 0 {
			sb.WriteString("[")
			for i := 0; i < ta.Len(); i++ {
				if i > 0 {
					sb.WriteString(",")
				}
				writeCanonType(sb, ta.At(i), d+1)
			}
			sb.WriteString("]")
		}
	case *types.Pointer:
		sb.WriteString("*")
		writeCanonType(sb, x.Elem(), d+1)
	case *types.Slice:
		sb.WriteString("[]")
		writeCanonType(sb, x.Elem(), d+1)
	case *types.Array:
		fmt.Fprintf(sb, "[%d]", x.Len())
		writeCanonType(sb, x.Elem(), d+1)
	case *types.Map:
		sb.WriteString("map[")
		writeCanonType(sb, x.Key(), d+1)
		sb.WriteString("]")
		writeCanonType(sb, x.Elem(), d+1)
	case *types.Chan:
		sb.WriteString("chan ")
		writeCanonType(sb, x.Elem(), d+1)
	case *types.Signature:
		sb.WriteString("func(")
		for i := 0; i < x.Params().Len(); i++ {
			if i > 0 {
				sb.WriteString(",")
			}
			writeCanonType(sb, x.Params().At(i).Type(), d+1)
		}
		sb.WriteString(")(")
		for i := 0; i < x.Results().Len(); i++ {
			if i > 0 {
				sb.WriteString(",")
			}
			writeCanonType(sb, x.Results().At(i).Type(), d+1)
		}
		sb.WriteString(")")
	case *types.Tuple:
		sb.WriteString("(")
		for i := 0; i < x.Len(); i++ {
			if i > 0 {
				sb.WriteString(",")
			}
			writeCanonType(sb, x.At(i).Type(), d+1)
		}
		sb.WriteString(")")
	case *types.Struct:
		sb.WriteString("struct{")
		for i := 0; i < x.NumFields(); i++ {
			if i > 0 {
				sb.WriteString(";")
			}
			writeCanonType(sb, x.Field(i).Type(), d+1)
		}
		sb.WriteString("}")
	case *types.Interface:
		fmt.Fprintf(sb, "interface{%d}", x.NumMethods())
	default:
		sb.WriteString(typeShort(t))
	}
}

// moduleTypes lists the named types declared in the module's library packages.
func (c *Ctx) moduleTypes() map[string]*types.TypeName {
	out := map[string]*types.TypeName{}
	for _, p := range c.Pkgs {
		if p.Types == nil {
			continue
		}
		sc := p.Types.Scope()
		for _, n := range sc.Names() {
			if tn, ok := sc.Lookup(n).(*types.TypeName); ok && !tn.IsAlias() {
				out[shortPath(p.PkgPath)+"."+n] = tn
			}
		}
	}
	return out
}

func shapeOfType(tn *types.TypeName) typeSym {
	ts := typeSym{}
	named, _ := tn.Type().(*types.Named)
	if named != nil {
		ts.Methods = named.NumMethods()
	}
	switch u := tn.Type().Underlying().(type) {
	case *types.Struct:
		ts.Kind = "struct"
		for i := 0; i < u.NumFields(); i++ {
			ts.Fields = append(ts.Fields, fieldSym{Name: u.Field(i).Name(), Type: canonTypeString(u.Field(i).Type())})
		}
	case *types.Interface:
		ts.Kind = fmt.Sprintf("interface{%d}", u.NumMethods())
	default:
		ts.Kind = canonTypeString(u)
	}
	return ts
}

// stableCallee: a callee whose name cannot be changed by an internal rename (standard library,
// other modules, exported module API outside internal packages).
func stableCallee(f *ssa.Function) bool {
	if f == nil {
		return false
	}
	if f.Pkg == nil {
		if f.Object() != nil && f.Object().Pkg() != nil {
			return !strings.HasPrefix(f.Object().Pkg().Path(), modPath)
		}
		return true
	}
	return !strings.HasPrefix(f.Pkg.Pkg.Path(), modPath)
}

// fingerprint abstracts a function to its signature and SSA shape. Module-internal function,
// type-name and field identifiers do not take part (fields by index, callees by signature).
func fingerprint(fn *ssa.Function) string {
	h := sha256.New()
	fmt.Fprintf(h, "sig %s\n", canonTypeString(fn.Signature))
	if fn.Signature.Recv() != nil {
		fmt.Fprintf(h, "recv %s\n", canonTypeString(fn.Signature.Recv().Type()))
	}
	fmt.Fprintf(h, "anon %d free %d\n", len(fn.AnonFuncs), len(fn.FreeVars))
	var ops []*ssa.Value
	for _, b := range fn.Blocks {
		fmt.Fprintf(h, "b%d/%d:", len(b.Preds), len(b.Succs))
		for _, in := range b.Instrs {
			if _, isDbg := in.(*ssa.DebugRef); isDbg {
				continue
			}
			fmt.Fprintf(h, "%T", in)
			switch x := in.(type) {
			case *ssa.BinOp:
				fmt.Fprintf(h, "%s", x.Op)
			case *ssa.UnOp:
				fmt.Fprintf(h, "%s", x.Op)
			case *ssa.FieldAddr:
				fmt.Fprintf(h, "#%d", x.Field)
			case *ssa.Field:
				fmt.Fprintf(h, "#%d", x.Field)
			case *ssa.Extract:
				fmt.Fprintf(h, "#%d", x.Index)
			case *ssa.TypeAssert:
				fmt.Fprintf(h, "%s,%v", canonTypeString(x.AssertedType), x.CommaOk)
			case *ssa.MakeInterface, *ssa.ChangeType, *ssa.Convert, *ssa.Alloc, *ssa.MakeSlice, *ssa.MakeMap, *ssa.MakeChan:
				fmt.Fprintf(h, "%s", canonTypeString(x.(ssa.Value).Type()))
			case ssa.CallInstruction:
				cc := x.Common()
				switch {
				case cc.IsInvoke():
					fmt.Fprintf(h, "invoke %s", canonTypeString(cc.Method.Type()))
					if cc.Method.Pkg() == nil || !strings.HasPrefix(cc.Method.Pkg().Path(), modPath) || cc.Method.Exported() {
						fmt.Fprintf(h, " %s", cc.Method.Name())
					}
				case cc.StaticCallee() != nil:
					g := cc.StaticCallee()
					if stableCallee(g) {
						fmt.Fprintf(h, "call %s", g.String())
					} else {
						fmt.Fprintf(h, "call· %s", canonTypeString(g.Signature))
					}
				default:
					if bi, ok := cc.Value.(*ssa.Builtin); ok {
						fmt.Fprintf(h, "builtin %s", bi.Name())
					} else {
						fmt.Fprintf(h, "dyn %s", canonTypeString(cc.Value.Type()))
					}
				}
			}
			ops = in.Operands(ops[:0])
			for _, op := range ops {
				if op == nil || *op == nil {
					continue
				}
				switch v := (*op).(type) {
				case *ssa.Const:
					if v.Value == nil {
						fmt.Fprintf(h, " nil")
					} else if v.Value.Kind() == constant.String {
						fmt.Fprintf(h, " %q", constant.StringVal(v.Value))
					} else {
						fmt.Fprintf(h, " %s", v.Value.ExactString())
					}
				case *ssa.Global:
					if v.Pkg != nil && !strings.HasPrefix(v.Pkg.Pkg.Path(), modPath) || token.IsExported(v.Name()) {
						fmt.Fprintf(h, " @%s", v.Name())
					} else {
						fmt.Fprintf(h, " @·")
					}
				}
			}
			fmt.Fprintf(h, ";")
		}
		fmt.Fprintf(h, "\n")
	}
	return fmt.Sprintf("%x", h.Sum(nil))[:24]
}

func (c *Ctx) currentSymbols() *symTable {
	st := &symTable{Funcs: map[string]string{}, Types: map[string]typeSym{}, Place: map[string]string{}}
	for name, tn := range c.moduleTypes() {
		st.Types[name] = shapeOfType(tn)
	}
	for _, fn := range c.Fns {
		if fn.Parent() != nil || strings.HasPrefix(fn.Synthetic, "package initializer") {
			continue
		}
		st.Funcs[rawShort(fn)] = fingerprint(fn)
		st.Place[rawShort(fn)] = c.placeOf(fn, nil)
	}
	return st
}

// placeOf: the signature of fn and the names of the functions that call it statically (outermost
// enclosing function for calls from literals), as one string. rename maps a current function to
// the reviewed name it was matched with.
func (c *Ctx) placeOf(fn *ssa.Function, rename map[*ssa.Function]string) string {
	sites, _ := c.staticCallers(fn)
	seen := map[string]bool{}
	for _, s := range sites {
		f := s.Fn
		for f.Parent() != nil {
			f = f.Parent()
		}
		if f == fn {
			continue
		}
		n := aliasedTypeNames(rawShort(f))
		if old, ok := rename[f]; ok {
			n = old
		}
		seen[n] = true
	}
	var names []string
	for n := range seen {
		names = append(names, n)
	}
	sort.Strings(names)
	return canonTypeString(fn.Signature) + " <- " + strings.Join(names, ",")
}

func (c *Ctx) writeSymbols(path string) error {
	st := c.currentSymbols()
	st.Note = "generated by `dtlsvet -gen-symbols` on the reviewed tree; used only to recognise pure renames (see tool/symbols.go)"
	b, err := json.MarshalIndent(st, "", " ")
	if err != nil {
		return err
	}
	return os.WriteFile(path, append(b, '\n'), 0o644)
}

func pkgOfName(n string) string {
	// "(*internal/handshake.T).m" | "internal/handshake.f" | "(internal/handshake.T).m"
	s := strings.TrimLeft(n, "(*")
	if i := strings.LastIndex(s, "."); i >= 0 {
		// method: pkg.T).m -> cut at the first '.' after the last '/'
		slash := strings.LastIndex(s, "/")
		rest := s[slash+1:]
		if j := strings.Index(rest, "."); j >= 0 {
			return s[:slash+1+j]
		}
		return s[:i]
	}
	return s
}

// applyRenames matches reviewed names that disappeared against new names with the same shape.
func (c *Ctx) applyRenames() {
	resetAliases()
	path := filepath.Join(c.VerifDir, "spec", "symbols.json")
	b, err := os.ReadFile(path)
	if err != nil {
		return
	}
	var spec symTable
	if json.Unmarshal(b, &spec) != nil {
		return
	}
	// ---- types
	cur := c.moduleTypes()
	lostT := map[string][]string{} // pkg -> reviewed names missing now
	newT := map[string][]string{}
	for n := range spec.Types {
		if _, ok := cur[n]; !ok {
			lostT[pkgOfName(n)] = append(lostT[pkgOfName(n)], n)
		}
	}
	for n := range cur {
		if _, ok := spec.Types[n]; !ok {
			newT[pkgOfName(n)] = append(newT[pkgOfName(n)], n)
		}
	}
	sameShape := func(a, b typeSym, names bool) bool {
		if a.Kind != b.Kind || len(a.Fields) != len(b.Fields) || a.Methods != b.Methods {
			return false
		}
		for i := range a.Fields {
			if a.Fields[i].Type != b.Fields[i].Type || (names && a.Fields[i].Name != b.Fields[i].Name) {
				return false
			}
		}
		return true
	}
	for pkg, lost := range lostT {
		sort.Strings(lost)
		for _, ln := range lost {
			var cands []string
			for _, nn := range newT[pkg] {
				if sameShape(spec.Types[ln], shapeOfType(cur[nn]), false) {
					cands = append(cands, nn)
				}
			}
			// the reverse direction must be unique too
			if len(cands) == 1 {
				back := 0
				for _, l2 := range lost {
					if sameShape(spec.Types[l2], shapeOfType(cur[cands[0]]), false) {
						back++
					}
				}
				if back == 1 {
					tn := cur[cands[0]]
					aliasType[tn] = ln[strings.LastIndex(ln, ".")+1:]
					aliasReport = append(aliasReport, "type "+cands[0]+" is the reviewed "+ln)
				}
			}
		}
	}
	// ---- fields (of types known under their reviewed name, directly or through an alias)
	for name, tn := range cur {
		rn := name
		if a, ok := aliasType[tn]; ok {
			rn = pkgOfName(name) + "." + a
		}
		sp, ok := spec.Types[rn]
		if !ok || sp.Kind != "struct" {
			continue
		}
		u, ok := tn.Type().Underlying().(*types.Struct)
		if !ok {
			continue
		}
		have := map[string]bool{}
		for i := 0; i < u.NumFields(); i++ {
			have[u.Field(i).Name()] = true
		}
		reviewed := map[string]bool{}
		for _, f := range sp.Fields {
			reviewed[f.Name] = true
		}
		if u.NumFields() != len(sp.Fields) {
			continue // fields added or removed: not a pure rename
		}
		for i := 0; i < u.NumFields(); i++ {
			f := u.Field(i)
			rf := sp.Fields[i]
			if f.Name() == rf.Name {
				continue
			}
			// same position, same type, old name gone, new name not a reviewed name
			if canonTypeString(f.Type()) == rf.Type && !have[rf.Name] && !reviewed[f.Name()] {
				aliasField[f] = rf.Name
				aliasReport = append(aliasReport, "field "+rn+"."+f.Name()+" is the reviewed "+rf.Name)
			}
		}
	}
	// ---- functions (fingerprints use the type aliases established above)
	curF := map[string]*ssa.Function{}
	for _, fn := range c.Fns {
		if fn.Parent() != nil || strings.HasPrefix(fn.Synthetic, "package initializer") {
			continue
		}
		curF[aliasedTypeNames(rawShort(fn))] = fn
	}
	lostF := map[string][]string{}
	newF := map[string][]string{}
	for n := range spec.Funcs {
		if _, ok := curF[n]; !ok {
			lostF[pkgOfName(n)] = append(lostF[pkgOfName(n)], n)
		}
	}
	for n := range curF {
		if _, ok := spec.Funcs[n]; !ok {
			newF[pkgOfName(n)] = append(newF[pkgOfName(n)], n)
		}
	}
	fpCache := map[string]string{}
	fp := func(n string) string {
		if s, ok := fpCache[n]; ok {
			return s
		}
		s := fingerprint(curF[n])
		fpCache[n] = s
		return s
	}
	recvOf := func(n string) string {
		if i := strings.Index(n, ")."); i >= 0 {
			return n[:i+1]
		}
		return ""
	}
	for pkg, lost := range lostF {
		sort.Strings(lost)
		for _, ln := range lost {
			var cands []string
			for _, nn := range newF[pkg] {
				if recvOf(nn) == recvOf(ln) && fp(nn) == spec.Funcs[ln] {
					cands = append(cands, nn)
				}
			}
			if len(cands) != 1 {
				continue
			}
			back := 0
			for _, l2 := range lost {
				if recvOf(l2) == recvOf(ln) && spec.Funcs[l2] == spec.Funcs[ln] {
					back++
				}
			}
			if back == 1 {
				aliasFn[curF[cands[0]]] = ln
				aliasReport = append(aliasReport, "func "+cands[0]+" is the reviewed "+ln)
			}
		}
	}
	// second chance: a function that was renamed and edited in the same change no longer has the
	// reviewed fingerprint, but it still has the reviewed signature, receiver and callers. Matched
	// only when exactly one lost and one new function of the package share that place and the
	// place has at least one caller.
	matchedNew := map[string]bool{}
	for fn := range aliasFn {
		matchedNew[aliasedTypeNames(rawShort(fn))] = true
	}
	matchedOld := map[string]bool{}
	for _, old := range aliasFn {
		matchedOld[old] = true
	}
	for pkg, lost := range lostF {
		for _, ln := range lost {
			want, ok := spec.Place[ln]
			if matchedOld[ln] || !ok || strings.HasSuffix(want, " <- ") {
				continue
			}
			var cands []string
			for _, nn := range newF[pkg] {
				if matchedNew[nn] || recvOf(nn) != recvOf(ln) {
					continue
				}
				if c.placeOf(curF[nn], aliasFn) == want {
					cands = append(cands, nn)
				}
			}
			back := 0
			for _, l2 := range lost {
				if !matchedOld[l2] && recvOf(l2) == recvOf(ln) && spec.Place[l2] == want {
					back++
				}
			}
			if len(cands) == 1 && back == 1 {
				aliasFn[curF[cands[0]]] = ln
				matchedNew[cands[0]] = true
				matchedOld[ln] = true
				aliasReport = append(aliasReport, "func "+cands[0]+" takes the place of the reviewed "+ln+" (same signature and callers; body changed)")
			}
		}
	}
	sort.Strings(aliasReport)
}

// aliasedTypeNames rewrites the receiver type inside a raw short function name to its reviewed name.
func aliasedTypeNames(s string) string {
	for tn, old := range aliasType {
		if tn.Pkg() == nil {
			continue
		}
		p := shortPath(tn.Pkg().Path()) + "."
		s = replaceIdent(s, p+tn.Name(), p+old)
	}
	return s
}

func isIdentChar(b byte) bool {
	return b == '_' || (b >= '0' && b <= '9') || (b >= 'a' && b <= 'z') || (b >= 'A' && b <= 'Z')
}

// replaceIdent replaces whole-identifier occurrences of old by new.
func replaceIdent(s, old, new string) string {
	var sb strings.Builder
	for {
		i := strings.Index(s, old)
		if i < 0 {
			sb.WriteString(s)
			return sb.String()
		}
		end := i + len(old)
		if end < len(s) && isIdentChar(s[end]) {
			sb.WriteString(s[:end])
			s = s[end:]
			continue
		}
		sb.WriteString(s[:i])
		sb.WriteString(new)
		s = s[end:]
	}
}
