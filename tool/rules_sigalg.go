package main

import (
	"fmt"
	"go/constant"
	"sort"
	"strings"

	"golang.org/x/tools/go/ssa"
)

// ruleSignatureAlgBindsKey (C03): a handshake signature is checked with the primitive of the
// certificate's key type, and the peer *declares* a (hash, signature) pair next to the
// signature. The declared pair is what the local policy lists were checked against, so the
// primitive that runs must be the one the declared signature algorithm names, and it must run
// over a real digest: for every value of the declared algorithm, only the matching primitive is
// reachable from the verification entry points (decided by exploring the entry point once per
// declared value, helpers followed), and every digest-taking primitive is guarded by a check that
// the digest is not empty (an unknown or non-hash identifier yields no digest; ECDSA over an
// empty digest can be forged from the public key alone).
func ruleSignatureAlgBindsKey(c *Ctx, r *Report) {
	const rule = "signature-alg-binds-key"
	// declared signature algorithm constants, from the module's signature package
	type sc struct {
		name string
		val  int64
	}
	var consts []sc
	for _, p := range c.Prog.AllPackages() {
		if p.Pkg == nil || !strings.HasSuffix(p.Pkg.Path(), "pkg/crypto/signature") {
			continue
		}
		for name, m := range p.Members {
			if nc, ok := m.(*ssa.NamedConst); ok && strings.HasSuffix(namedOrType(nc.Type()), "pkg/crypto/signature.Algorithm") {
				if v, ok := constant.Int64Val(constant.ToInt(nc.Value.Value)); ok {
					consts = append(consts, sc{name, v})
				}
			}
		}
	}
	sort.Slice(consts, func(i, j int) bool { return consts[i].val < consts[j].val })
	if len(consts) < 4 {
		r.Unk(rule, "signature-constants", "", fmt.Sprintf("found %d signature.Algorithm constants", len(consts)))
		return
	}
	consts = append(consts, sc{"(unassigned value)", 0x7777})
	primitive := func(call *ssa.Call) string {
		n := calleeName(&call.Call)
		switch {
		case strings.HasPrefix(n, "crypto/ecdsa.Verify"):
			return "ecdsa"
		case strings.HasPrefix(n, "crypto/ed25519.Verify"):
			return "ed25519"
		case n == "crypto/rsa.VerifyPKCS1v15":
			return "rsa-pkcs1"
		case n == "crypto/rsa.VerifyPSS":
			return "rsa-pss"
		}
		return ""
	}
	allowed := func(prim, cname string) bool {
		switch prim {
		case "ecdsa":
			return cname == "ECDSA"
		case "ed25519":
			return cname == "Ed25519"
		case "rsa-pkcs1":
			return cname == "RSA"
		case "rsa-pss":
			return strings.HasPrefix(cname, "RSA_PSS_")
		}
		return false
	}
	followModule := func(callee *ssa.Function) bool { return inModule(callee) }
	entries := 0
	for _, name := range []string{"internal/handshakecrypto.VerifyKeySignature", "internal/handshakecrypto.VerifyCertificateVerify"} {
		fn := c.need(r, rule, name)
		if fn == nil {
			continue
		}
		var sigParam *ssa.Parameter
		for _, p := range fn.Params {
			if strings.HasSuffix(namedOrType(p.Type()), "pkg/crypto/signature.Algorithm") {
				sigParam = p
			}
		}
		if sigParam == nil {
			r.Unk(rule, short(fn), c.pos(fn.Pos()), "no parameter carries the declared signature algorithm")
			continue
		}
		entries++
		r.Sites += len(fn.Blocks)
		seenPrim := map[string]bool{}
		for _, k := range consts {
			kv := k
			w := &Walk{Fn: fn, Follow: followModule, Assume: func(v ssa.Value) (Val, bool) {
				if v == ssa.Value(sigParam) {
					return vInt(kv.val), true
				}
				return unknown, false
			}}
			w.FromEntry()
			var wrong []string
			var at ssa.Instruction
			for in := range w.Reached {
				call, ok := in.(*ssa.Call)
				if !ok {
					continue
				}
				if p := primitive(call); p != "" {
					if allowed(p, kv.name) {
						seenPrim[p] = true
					} else {
						wrong = append(wrong, p)
						if at == nil || in.Pos() < at.Pos() {
							at = in
						}
					}
				}
			}
			sort.Strings(wrong)
			wrong = uniq(wrong)
			pos := c.pos(fn.Pos())
			if at != nil {
				pos = c.ipos(at)
			}
			r.Check(len(wrong) == 0, rule, fmt.Sprintf("%s:declared=%s", short(fn), kv.name), pos,
				"only the primitive named by the declared algorithm is reachable",
				fmt.Sprintf("with the peer declaring signature algorithm %s (%d) the signature is still checked with [%s]: the key type, not the declared (and policy-checked) algorithm, decides how the signature is verified", kv.name, kv.val, strings.Join(wrong, ",")))
		}
		for _, p := range []string{"ecdsa", "ed25519", "rsa-pkcs1", "rsa-pss"} {
			r.Check(seenPrim[p], rule, short(fn)+":supports:"+p, c.pos(fn.Pos()), p+" reachable under its own declared algorithm", "no path verifies a "+p+" signature under its own declared algorithm")
		}
	}
	// the digest handed to a digest-taking primitive is checked for emptiness first
	nd := 0
	for _, fn := range c.Fns {
		if fn.Pkg == nil || !strings.HasSuffix(fn.Pkg.Pkg.Path(), "internal/handshakecrypto") {
			continue
		}
		for _, b := range fn.Blocks {
			for _, in := range b.Instrs {
				call, ok := in.(*ssa.Call)
				if !ok {
					continue
				}
				var digest ssa.Value
				switch primitive(call) {
				case "ecdsa":
					digest = call.Call.Args[1]
				case "rsa-pkcs1", "rsa-pss":
					digest = call.Call.Args[2]
				default:
					continue
				}
				nd++
				leaves := c.Origins(digest, 0)
				guarded := false
				for _, blk := range fn.Blocks {
					ifi, ok := blk.Instrs[len(blk.Instrs)-1].(*ssa.If)
					if !ok || !blk.Dominates(call.Block()) || blk == call.Block() {
						continue
					}
					bo, ok := ifi.Cond.(*ssa.BinOp)
					if !ok {
						continue
					}
					for _, side := range []ssa.Value{bo.X, bo.Y} {
						if lc, ok := side.(*ssa.Call); ok {
							if bi, ok := lc.Call.Value.(*ssa.Builtin); ok && bi.Name() == "len" {
								side = lc.Call.Args[0]
							}
						}
						for _, l := range c.Origins(side, 0) {
							for _, dl := range leaves {
								if l == dl {
									guarded = true
								}
							}
						}
					}
				}
				r.Check(guarded, rule, fmt.Sprintf("%s:digest-nonempty:%s", short(fn), primitive(call)), c.ipos(call),
					"the digest is checked for emptiness before the primitive runs",
					"the digest handed to the "+primitive(call)+" check is never tested for emptiness: a declared hash identifier that is not a hash (none, the Ed25519 placeholder, an unassigned value) yields an empty digest, and an ECDSA signature over an empty digest can be computed from the public key alone")
			}
		}
	}
	r.Floor(rule, nd, 3)
	r.Floor(rule+":entries", entries, 2)
}
