package main

import (
	"fmt"
	"go/token"
	"go/types"
	"sort"
	"strings"

	"golang.org/x/tools/go/ssa"
)

// ruleSuiteNeedsCredential (C03, C11): the configured suite list keeps a suite only if the endpoint
// holds the kind of credential that suite authenticates with: with certificate suites excluded
// (no certificate configured) no certificate suite is kept, with PSK suites excluded (no PSK
// callback) no PSK suite is kept. The client later decides whether to *demand* a certificate from
// the negotiated suite's authentication type but decides the key exchange from the configured PSK
// callback; a PSK suite kept without a PSK lets a server that proves nothing complete a handshake.
// Decided on the filter loop: the suite's authentication type and the include flag are bound, and
// the store that keeps the suite must be unreachable.
func ruleSuiteNeedsCredential(c *Ctx, r *Report) {
	const rule = "suite-needs-credential"
	fn := c.need(r, rule, "dtls.parseCipherSuitesForVersions")
	if fn == nil {
		return
	}
	r.Sites += len(fn.Blocks)
	auth := c.enumConsts("internal/ciphersuite/types", "AuthenticationType")
	if len(auth) < 3 {
		r.Unk(rule, "enum", "", "AuthenticationType constants not found")
		return
	}
	var incCert, incPSK *ssa.Parameter
	for _, p := range fn.Params {
		if bt, ok := p.Type().Underlying().(*types.Basic); ok && bt.Kind() == types.Bool {
			if incCert == nil {
				incCert = p
			} else if incPSK == nil {
				incPSK = p
			}
		}
	}
	if incCert == nil || incPSK == nil {
		r.Unk(rule, short(fn), c.pos(fn.Pos()), "the two include flags were not found among the parameters")
		return
	}
	// the "keep" effect: a store into an element of the suite slice, or an append of the loop element
	isKeep := func(in ssa.Instruction) bool {
		switch x := in.(type) {
		case *ssa.Store:
			if ia, ok := x.Addr.(*ssa.IndexAddr); ok {
				if sl, ok := ia.X.Type().Underlying().(*types.Slice); ok && strings.HasSuffix(namedOrType(sl.Elem()), "CipherSuite") {
					return true
				}
			}
		}
		return false
	}
	type cse struct {
		name     string
		authName string
		cert     bool
		psk      bool
		keep     bool
	}
	cases := []cse{
		{"certificate-suite-without-certificate", "AuthenticationTypeCertificate", false, true, false},
		{"psk-suite-without-psk", "AuthenticationTypePreSharedKey", true, false, false},
		{"certificate-suite-with-certificate", "AuthenticationTypeCertificate", true, false, true},
		{"psk-suite-with-psk", "AuthenticationTypePreSharedKey", false, true, true},
	}
	for _, cs := range cases {
		av, ok := auth[cs.authName]
		if !ok {
			r.Unk(rule, cs.name, "", cs.authName+" not found")
			continue
		}
		cc := cs
		w := &Walk{Fn: fn, Assume: func(v ssa.Value) (Val, bool) {
			if v == ssa.Value(incCert) {
				return vBool(cc.cert), true
			}
			if v == ssa.Value(incPSK) {
				return vBool(cc.psk), true
			}
			if call, ok := v.(*ssa.Call); ok && call.Call.IsInvoke() && call.Call.Method.Name() == "AuthenticationType" {
				return vInt(av), true
			}
			return unknown, false
		}}
		w.FromEntry()
		kept := false
		var at ssa.Instruction
		for in := range w.Reached {
			if in.Parent() == fn && isKeep(in) {
				kept = true
				if at == nil || in.Pos() < at.Pos() {
					at = in
				}
			}
		}
		pos := c.pos(fn.Pos())
		if at != nil {
			pos = c.ipos(at)
		}
		if cs.keep {
			r.Check(kept, rule, cs.name, pos, "a suite whose credential is configured is kept", "no path keeps a suite whose credential is configured (rule no longer matches the code)")
		} else {
			r.Check(!kept, rule, cs.name, pos, "a suite whose credential is not configured is dropped", "a "+strings.TrimPrefix(cs.authName, "AuthenticationType")+" suite stays in the configured list although the endpoint holds no such credential: a peer that selects it is never asked to authenticate")
		}
	}
}

// ruleLeafIsFirstPresented (C03): the certificate whose public key checks the handshake signature
// and the certificate that chain and name validation start from are the same one: the first the
// peer presented. The parsed chain is built by appending in presentation order and is never
// reordered; chain validation verifies element 0 of it; signature verification parses element 0
// of the raw list.
func ruleLeafIsFirstPresented(c *Ctx, r *Report) {
	const rule = "leaf-is-first-presented"
	lc := c.need(r, rule, "internal/handshakecrypto.loadCerts")
	if lc == nil {
		return
	}
	r.Sites += len(lc.Blocks)
	// (1) no element store into a slice of certificates: append only
	var reorder ssa.Instruction
	for _, u := range c.unitFuncs(lc) {
		for _, b := range u.Blocks {
			for _, in := range b.Instrs {
				st, ok := in.(*ssa.Store)
				if !ok {
					continue
				}
				if ia, ok := st.Addr.(*ssa.IndexAddr); ok {
					if sl, ok := ia.X.Type().Underlying().(*types.Slice); ok && strings.HasSuffix(types.TypeString(sl.Elem(), nil), "x509.Certificate") {
						if reorder == nil {
							reorder = in
						}
					}
				}
			}
		}
	}
	pos := c.pos(lc.Pos())
	if reorder != nil {
		pos = c.ipos(reorder)
	}
	r.Check(reorder == nil, rule, short(lc)+":order-preserved", pos, "the parsed chain is the presented chain, in order", "the parsed certificate list is reordered after parsing: chain and name validation then start from a certificate other than the one whose key verified the handshake signature (a peer can present its own key first and somebody else's valid certificate second)")
	// (2) every x509 Verify in the package is called on element 0 of a loadCerts result
	n := 0
	for _, fn := range c.fnsOfPkg("internal/handshakecrypto") {
		for _, b := range fn.Blocks {
			for _, in := range b.Instrs {
				call, ok := in.(*ssa.Call)
				if !ok || calleeName(&call.Call) != "(*crypto/x509.Certificate).Verify" {
					continue
				}
				n++
				recv := call.Call.Args[0]
				okRecv := false
				if u, isLoad := recv.(*ssa.UnOp); isLoad {
					if ia, isIA := u.X.(*ssa.IndexAddr); isIA {
						if k, isK := constInt(ia.Index); isK && k == 0 && valueFromCall(c, ia.X, nameIs("internal/handshakecrypto.loadCerts"), 0) {
							okRecv = true
						}
					}
				}
				r.Check(okRecv, rule, short(fn)+":verifies-first", c.ipos(call), "chain validation starts from element 0 of the parsed chain", "chain validation does not start from the first presented certificate")
			}
		}
	}
	// (3) the signature is checked with the key of raw element 0
	if vs := c.need(r, rule, "internal/handshakecrypto.verifyCertificateSignature"); vs != nil {
		good := false
		for _, u := range c.unitFuncs(vs) {
			for _, call := range findCalls(u, nameIs("crypto/x509.ParseCertificate")) {
				if ld, isLoad := call.Call.Args[0].(*ssa.UnOp); isLoad {
					if ia, isIA := ld.X.(*ssa.IndexAddr); isIA {
						if k, isK := constInt(ia.Index); isK && k == 0 {
							if _, isP := ia.X.(*ssa.Parameter); isP {
								good = true
							}
						}
					}
				}
			}
		}
		r.Check(good, rule, short(vs)+":signer-is-first", c.pos(vs.Pos()), "the signature is checked with the key of the first presented certificate", "the handshake signature is not checked with the key of the first presented certificate")
	}
	r.Floor(rule, n, 2)
}

// ruleRandomPopulated (C05, C14, C07): the hello random - the only per-connection input of the DTLS
// 1.2 key block besides the master secret - is filled from crypto/rand: in Random.Populate the
// bytes that crypto/rand.Read wrote end up in RandomBytes (read straight into the field, or copied
// into it from the buffer that was read into). Two resumptions of one session in the same second
// otherwise derive identical record keys, and a record of one authenticates on the other.
func ruleRandomPopulated(c *Ctx, r *Report) {
	const rule = "random-populated"
	fn := c.need(r, rule, "(*pkg/protocol/handshake.Random).Populate")
	if fn == nil {
		return
	}
	r.Sites += len(fn.Blocks)
	isRandField := func(v ssa.Value) bool {
		// a slice of (or the address of) receiver.RandomBytes
		for d := 0; d < 4 && v != nil; d++ {
			switch x := v.(type) {
			case *ssa.Slice:
				v = x.X
			case *ssa.FieldAddr:
				_, f, _, ok := fieldOfAddr(x)
				return ok && f == "RandomBytes"
			default:
				return false
			}
		}
		return false
	}
	reads := findCalls(fn, nameIs("crypto/rand.Read"))
	if len(reads) == 0 {
		r.Bad(rule, short(fn), c.pos(fn.Pos()), "the hello random is not read from crypto/rand")
		return
	}
	good := false
	for _, rd := range reads {
		buf := rd.Call.Args[0]
		if isRandField(buf) {
			good = true
			continue
		}
		for _, cp := range findCalls(fn, nameIs("builtin:copy")) {
			if !instrReaches(rd, cp) {
				continue
			}
			dst, src := cp.Call.Args[0], cp.Call.Args[1]
			srcIsBuf := src == buf || sameValue(src, buf) || anyLeaf(c.Origins(src, 0), func(l ssa.Value) bool { return anyLeaf(c.Origins(buf, 0), func(m ssa.Value) bool { return l == m }) })
			if isRandField(dst) && srcIsBuf {
				good = true
			}
		}
	}
	r.Check(good, rule, short(fn), c.ipos(reads[0]), "the bytes read from crypto/rand end up in RandomBytes", "the bytes read from crypto/rand never reach Random.RandomBytes (the random part of every hello stays what it was): record keys of two handshakes that share a master secret and a timestamp are identical")
	_ = sort.Strings
	_ = fmt.Sprint
	_ = token.ADD
}

// ruleHRRMessageHash (C10): RFC 8446 4.4.1: after a HelloRetryRequest the first ClientHello is
// replaced in the transcript by message_hash || 00 00 Hash.length || Hash(ClientHello1), where
// Hash is the *negotiated* transcript hash. In the function that rewrites the transcript the digest
// written behind the four-byte header is the Sum of the transcript's running hash (the value of the
// hash field, selected from the cipher suite), the header carries its length, and the new running
// hash starts from exactly that synthetic message.
func ruleHRRMessageHash(c *Ctx, r *Report) {
	const rule = "hrr-message-hash"
	fn := c.need(r, rule, "(*"+pkgHS+".Transcript).applyHelloRetryRequest")
	if fn == nil {
		return
	}
	r.Sites += len(fn.Blocks)
	// Sum invoked on the transcript's hash field
	var sums []*ssa.Call
	for _, b := range fn.Blocks {
		for _, in := range b.Instrs {
			call, ok := in.(*ssa.Call)
			if !ok || !call.Call.IsInvoke() || call.Call.Method.Name() != "Sum" {
				continue
			}
			if _, f, _, okF := fieldLoad(call.Call.Value); okF && f == "h" {
				sums = append(sums, call)
			}
		}
	}
	if len(sums) != 1 {
		r.Bad(rule, short(fn), c.pos(fn.Pos()), fmt.Sprintf("%d digests taken from the running transcript hash (expected one): the synthetic message_hash does not carry Hash(ClientHello1) under the negotiated hash", len(sums)))
		return
	}
	digest := sums[0]
	// the digest is what is copied behind the header, and its length is what the header carries
	copied, lenUsed := false, false
	for _, cp := range findCalls(fn, nameIs("builtin:copy")) {
		if allLeaves(c.Origins(cp.Call.Args[1], 0), func(l ssa.Value) bool { return l == ssa.Value(digest) }) {
			if sl, ok := cp.Call.Args[0].(*ssa.Slice); ok {
				if k, isK := constInt(sl.Low); isK && k == 4 {
					copied = true
				}
			}
		}
	}
	for _, b := range fn.Blocks {
		for _, in := range b.Instrs {
			if call, ok := in.(*ssa.Call); ok {
				if bi, isB := call.Call.Value.(*ssa.Builtin); isB && bi.Name() == "len" && len(call.Call.Args) == 1 && call.Call.Args[0] == ssa.Value(digest) {
					lenUsed = true
				}
			}
		}
	}
	r.Check(copied && lenUsed, rule, short(fn)+":digest", c.ipos(digest), "message_hash body = Sum of the running transcript hash, header carries its length", "the synthetic message_hash is not built from the Sum of the negotiated transcript hash (body at offset 4, length in the header): for a SHA-384 suite every secret derived after a HelloRetryRequest then differs from RFC 8446")
	// the type byte
	typ := c.enumConsts("pkg/protocol/handshake", "Type")
	okType := false
	for _, b := range fn.Blocks {
		for _, in := range b.Instrs {
			if st, ok := in.(*ssa.Store); ok {
				if ia, isIA := st.Addr.(*ssa.IndexAddr); isIA {
					if k, isK := constInt(ia.Index); isK && k == 0 {
						if v, isV := constInt(st.Val); isV && v == typ["TypeMessageHash"] {
							okType = true
						}
					}
				}
			}
		}
	}
	r.Check(okType, rule, short(fn)+":type", c.pos(fn.Pos()), "first byte = message_hash (254)", "the synthetic message does not start with the message_hash handshake type")
}

// ruleListenerRegistersAccepted (C08): a listener keeps routing state only for peers it handed to
// the accept queue: the insertion of a new connection into the routing map cannot be followed by
// the refusal exit (a non-nil error or a nil connection). Otherwise every source address that hits
// a full backlog leaves an orphan connection with an unbounded buffer behind, and a genuine client
// refused once is routed to its orphan forever.
func ruleListenerRegistersAccepted(c *Ctx, r *Report) {
	const rule = "listener-registers-accepted"
	n := 0
	for _, fn := range c.fnsOfPkg("internal/net/udp") {
		if len(fn.Blocks) == 0 {
			continue
		}
		// only functions that create the connection they register
		creates := len(findCalls(fn, func(nm string) bool { return strings.HasSuffix(nm, "listener).newPacketConn") })) > 0
		if !creates {
			continue
		}
		for _, b := range fn.Blocks {
			for _, in := range b.Instrs {
				mu, ok := in.(*ssa.MapUpdate)
				if !ok || !isFieldLoad(mu.Map, "internal/net/udp.listener", "conns") {
					continue
				}
				n++
				r.Sites += len(fn.Blocks)
				bad := ""
				for _, b2 := range fn.Blocks {
					ret, isRet := b2.Instrs[len(b2.Instrs)-1].(*ssa.Return)
					if !isRet || b2 == fn.Recover || !instrReaches(mu, ret) {
						continue
					}
					res := retResults(ret)
					refusal := false
					for _, v := range res {
						if isErrorType(v.Type()) && !isNilConst(v) {
							refusal = true
						}
					}
					if len(res) > 0 && isNilConst(res[0]) {
						refusal = true
					}
					if refusal {
						bad = c.ipos(ret)
					}
				}
				r.Check(bad == "", rule, short(fn), c.ipos(mu), "a connection is registered for routing only on the path that hands it to the accept queue", "a new connection is inserted into the routing map on a path that then refuses it ("+bad+"): it is never accepted or closed, its buffer grows without bound, and later datagrams of that peer are routed to it")
			}
		}
	}
	r.Floor(rule, n, 1)
}

// ruleKeyAgreementCurveMatchesKey (C01, C11): an ECDH key agreement runs on the curve of the private
// key it uses: the curve argument of prf.PreMasterSecret / EcdhePSKPreMasterSecret is the Curve of
// the very keypair whose private key is passed, or the group that keypair was looked up under, or
// (DTLS 1.3 server) the SelectedGroup of the state whose LocalKeypair is used. A curve taken from
// anywhere else (the endpoint's own preference, say) only works while both sides list their groups
// in the same order.
func ruleKeyAgreementCurveMatchesKey(c *Ctx, r *Report) {
	const rule = "key-agreement-curve-matches-key"
	n := 0
	for _, s := range c.CallsTo(nameIs("pkg/crypto/prf.PreMasterSecret", "pkg/crypto/prf.EcdhePSKPreMasterSecret")) {
		call, ok := s.Call.(*ssa.Call)
		if !ok || !inModule(s.Fn) || strings.HasSuffix(s.Fn.Pkg.Pkg.Path(), "pkg/crypto/prf") {
			continue
		}
		args := call.Call.Args
		priv, curve := args[len(args)-2], args[len(args)-1]
		n++
		r.Sites++
		key := fmt.Sprintf("%s:%s", short(s.Fn), strings.TrimPrefix(calleeName(&call.Call), "pkg/crypto/prf."))
		_, f, kp, okP := fieldLoad(priv)
		if !okP || f != "PrivateKey" {
			r.Unk(rule, key, c.ipos(call), "the private key argument is not the PrivateKey field of a keypair")
			continue
		}
		good := ""
		// (a) Curve of the same keypair
		if _, cf, cb, okC := fieldLoad(curve); okC && cf == "Curve" && (cb == kp || sameValue(cb, kp) || shapeOf(cb, 0) == shapeOf(kp, 0)) {
			good = "curve = Curve of the keypair whose private key is used"
		}
		// (b) the group the keypair was looked up under
		if good == "" {
			for _, l := range c.Origins(kp, 0) {
				var lk *ssa.Lookup
				switch x := l.(type) {
				case *ssa.Lookup:
					lk = x
				case *ssa.Extract:
					lk, _ = x.Tuple.(*ssa.Lookup)
				}
				if lk != nil && (lk.Index == curve || sameValue(lk.Index, curve) || shapeOf(lk.Index, 0) == shapeOf(curve, 0)) {
					good = "curve = the group the keypair was looked up under"
				}
			}
		}
		// (c) SelectedGroup and LocalKeypair of one state
		if good == "" {
			_, kf, kb, okK := fieldLoad(kp)
			_, cf, cb, okC := fieldLoad(curve)
			if okK && okC && kf == "LocalKeypair" && cf == "SelectedGroup" && (kb == cb || sameValue(kb, cb) || shapeOf(kb, 0) == shapeOf(cb, 0)) {
				good = "curve = SelectedGroup of the state whose LocalKeypair is used"
			}
		}
		r.Check(good != "", rule, key, c.ipos(call), good, "the key agreement runs on "+shapeOf(curve, 0)+", which is neither the curve of the private key "+shapeOf(priv, 0)+" nor the group it was selected under: peers that prefer their common groups in different orders cannot complete a handshake (or agree on different secrets)")
	}
	r.Floor(rule, n, 4)
}

// ruleEMSOffered (C01, C11): every ClientHello generator offers extended_master_secret exactly when
// the policy asks for it (request or require), whatever else is configured: with the policy bound to
// either value no successful exit of the generator is reachable without the extension having been
// built. The generator of the dual-stack ClientHello is negotiated from by a DTLS 1.2 server too;
// leaving the extension out there makes a require-policy pair fail and a request-policy pair skip
// the extended master secret silently.
func ruleEMSOffered(c *Ctx, r *Report) {
	const rule = "ems-offered"
	pol := c.enumConsts("internal/config", "ExtendedMasterSecretType")
	if len(pol) < 3 {
		r.Unk(rule, "enum", "", "ExtendedMasterSecretType constants not found")
		return
	}
	n := 0
	for _, pkg := range []string{pkgF12, pkgF13} {
		for _, fn := range c.fnsOfPkg(pkg) {
			if fn.Parent() != nil || len(fn.Blocks) == 0 {
				continue
			}
			// client hello generators: build a MessageClientHello and an ExtendedMasterSecret value
			var ems []ssa.Instruction
			hello := false
			for _, b := range fn.Blocks {
				for _, in := range b.Instrs {
					if al, ok := in.(*ssa.Alloc); ok {
						t := namedOrType(derefType(al.Type()))
						if strings.HasSuffix(t, "extension/dtls12.ExtendedMasterSecret") {
							ems = append(ems, in)
						}
						if strings.HasSuffix(t, "handshake.MessageClientHello") {
							hello = true
						}
					}
				}
			}
			if !hello {
				continue
			}
			n++
			r.Sites += len(fn.Blocks)
			if len(ems) == 0 {
				r.Bad(rule, short(fn), c.pos(fn.Pos()), "this ClientHello generator never builds the extended_master_secret extension")
				continue
			}
			isEMS := map[ssa.Instruction]bool{}
			for _, e := range ems {
				isEMS[e] = true
			}
			for _, pname := range []string{"RequestExtendedMasterSecret", "RequireExtendedMasterSecret"} {
				pv, ok := pol[pname]
				if !ok {
					continue
				}
				w := &Walk{Fn: fn, Follow: followSamePkg(fn), Assume: func(v ssa.Value) (Val, bool) {
					if _, f, _, ok := fieldLoad(v); ok && f == "ExtendedMasterSecret" && strings.HasSuffix(namedOrType(v.Type()), "ExtendedMasterSecretType") {
						return vInt(pv), true
					}
					return unknown, false
				}}
				w.Visit = func(in ssa.Instruction, _ Env) bool { return !isEMS[in] }
				w.FromEntry()
				leak := ""
				for _, ri := range possibleSuccessReturns(fn) {
					if w.Reached[ri] {
						leak = c.ipos(ri)
					}
				}
				r.Check(leak == "", rule, short(fn)+":"+pname, c.pos(fn.Pos()), "the extension is built on every successful path", "with the policy "+pname+" this ClientHello generator can succeed ("+leak+") without offering extended_master_secret")
			}
		}
	}
	r.Floor(rule, n, 3)
}

// ruleUnauthenticatedCCSBounded (C05, C06, C08): a ChangeCipherSpec record is the one content type
// every DTLS 1.2 Decrypt hands through without authentication. Its consumer therefore may act only
// on the one that is legitimate: the epoch-0 ChangeCipherSpec of the handshake (there is no
// renegotiation). With the record's epoch different from 0 the consumer neither moves the read
// epoch nor invokes the replay-window commit. Otherwise one forged 14-byte datagram with a chosen
// sequence number advances the read epoch of an established connection and marks that number as
// received: the genuine records that follow are dropped.
func ruleUnauthenticatedCCSBounded(c *Ctx, r *Report) {
	const rule = "unauthenticated-ccs-bounded"
	fn := c.need(r, rule, "(*dtls.Conn).handleChangeCipherSpecRecord")
	if fn == nil {
		return
	}
	r.Sites += len(fn.Blocks)
	isEpoch := func(v ssa.Value) bool {
		return isFieldLoad(v, "pkg/protocol/recordlayer.Header", "Epoch")
	}
	w := &Walk{Fn: fn, Follow: followSamePkg(fn), FollowDeferring: true, Assume: func(v ssa.Value) (Val, bool) {
		bo, ok := v.(*ssa.BinOp)
		if !ok {
			return unknown, false
		}
		x, y := bo.X, bo.Y
		if k, isK := constInt(x); isK && k == 0 && isEpoch(y) {
			x, y = y, x
		}
		if k, isK := constInt(y); !(isK && k == 0 && isEpoch(x)) {
			return unknown, false
		}
		switch bo.Op { // epoch ? 0 with epoch >= 1
		case token.EQL, token.LEQ:
			return vBool(false), true
		case token.NEQ, token.GTR:
			return vBool(true), true
		}
		return unknown, false
	}}
	w.FromEntry()
	var effects []string
	for in := range w.Reached {
		call, ok := in.(*ssa.Call)
		if !ok {
			continue
		}
		if strings.HasSuffix(calleeName(&call.Call), "dtls.Conn).setRemoteEpoch") {
			effects = append(effects, "moves the read epoch ("+c.ipos(in)+")")
		}
		if call.Call.StaticCallee() == nil && !call.Call.IsInvoke() {
			if _, f, _, okF := fieldLoad(call.Call.Value); okF && f == "markPacketAsValid" {
				effects = append(effects, "commits the sequence number to the replay window ("+c.ipos(in)+")")
			}
		}
	}
	sort.Strings(effects)
	r.Check(len(effects) == 0, rule, short(fn), c.pos(fn.Pos()), "a ChangeCipherSpec of an epoch other than 0 has no effect", "a ChangeCipherSpec record that claims an epoch other than 0 (never authenticated: Decrypt hands the type through) "+strings.Join(dedup(effects), " and ")+": one forged datagram wedges an established connection")
}

// ruleUnprotectedAlertBounded (C08, C16, C05): an alert in an epoch-0 record is not authenticated.
// It is the peer's only while the peer has not switched to a protected epoch; once this side has
// accepted the peer's change of epoch (read epoch != 0) an unprotected alert has no effect: the
// consumer neither returns the alert as an error (which closes the connection) nor answers it.
func ruleUnprotectedAlertBounded(c *Ctx, r *Report) {
	const rule = "unprotected-alert-bounded"
	fn := c.need(r, rule, "(*dtls.Conn).handleRecordContent")
	if fn == nil {
		return
	}
	r.Sites += len(fn.Blocks)
	isEpoch := func(v ssa.Value) bool { return isFieldLoad(v, "pkg/protocol/recordlayer.Header", "Epoch") }
	matchedEpoch := false
	w := &Walk{Fn: fn, Follow: followSamePkg(fn), FollowDeferring: true, Assume: func(v ssa.Value) (Val, bool) {
		switch x := v.(type) {
		case *ssa.BinOp:
			a, b := x.X, x.Y
			if k, isK := constInt(a); isK && k == 0 && isEpoch(b) {
				a, b = b, a
			}
			if k, isK := constInt(b); isK && k == 0 && isEpoch(a) { // record epoch ? 0, with epoch == 0
				matchedEpoch = true
				switch x.Op {
				case token.EQL, token.LEQ:
					return vBool(true), true
				case token.NEQ, token.GTR:
					return vBool(false), true
				}
			}
		case *ssa.Call:
			if strings.HasSuffix(calleeName(&x.Call), "Common).RemoteEpoch") {
				return vInt(1), true
			}
		case *ssa.Extract:
			// the type switch took the alert arm
			if ta, ok := x.Tuple.(*ssa.TypeAssert); ok && ta.CommaOk && x.Index == 1 {
				return vBool(strings.HasSuffix(namedOrType(derefType(ta.AssertedType)), "pkg/protocol/alert.Alert")), true
			}
		}
		return unknown, false
	}}
	w.FromEntry()
	var effects []string
	for in := range w.Reached {
		if al, ok := in.(*ssa.Alloc); ok && in.Parent() == fn {
			t := namedOrType(derefType(al.Type()))
			if strings.HasSuffix(t, "dtls.alertError") {
				effects = append(effects, "is returned as an alert error, which closes the connection ("+c.ipos(in)+")")
			}
		}
	}
	sort.Strings(effects)
	if !matchedEpoch && len(effects) > 0 {
		r.Bad(rule, short(fn), c.pos(fn.Pos()), "the alert consumer never looks at the epoch of the record: an unprotected alert "+strings.Join(dedup(effects), " and ")+" at any time, so anyone who can reach the socket closes an established session with one datagram")
		return
	}
	r.Check(len(effects) == 0, rule, short(fn), c.pos(fn.Pos()), "an unprotected alert has no effect once the read epoch is protected", "an alert in an epoch-0 record, received after the peer switched to a protected epoch, "+strings.Join(dedup(effects), " and ")+": anyone who can reach the socket closes an established session with one datagram")
}

// ruleBufferLimitOnlyForHandshake (C08): every received record is first offered to the handshake
// reassembly buffer; the buffer's fill limits (bytes held, fragments held) may refuse only what
// would enter it. With the record's content type different from handshake the overflow error is
// unreachable - otherwise an unauthenticated sender who parks the maximum number of far-future
// fragments stops all application data, alerts and acknowledgements for good. (A record that by its
// own size can never be stored may be refused whatever it is.)
func ruleBufferLimitOnlyForHandshake(c *Ctx, r *Report) {
	const rule = "buffer-limit-only-for-handshake"
	fn := c.need(r, rule, "(*internal/fragmentbuffer.FragmentBuffer).Push")
	if fn == nil {
		return
	}
	r.Sites += len(fn.Blocks)
	ct := c.enumConsts("pkg/protocol", "ContentType")
	hs, ok := ct["ContentTypeHandshake"]
	if !ok {
		r.Unk(rule, short(fn), c.pos(fn.Pos()), "ContentTypeHandshake not found")
		return
	}
	matched := false
	w := &Walk{Fn: fn, Follow: followSamePkg(fn), Assume: func(v ssa.Value) (Val, bool) {
		switch x := v.(type) {
		case *ssa.BinOp:
			if x.Op != token.EQL && x.Op != token.NEQ {
				break
			}
			for _, pr := range [][2]ssa.Value{{x.X, x.Y}, {x.Y, x.X}} {
				if _, f, _, okF := fieldLoad(pr[0]); okF && f == "ContentType" {
					if k, isK := constInt(pr[1]); isK && k == hs {
						matched = true
						return vBool(x.Op == token.NEQ), true
					}
				}
			}
		case *ssa.Call:
			// the accumulated fill, not the size of this record: size() and the counters are unknown;
			// len(buf) is taken to be small (an ordinary record)
			if b, isB := x.Call.Value.(*ssa.Builtin); isB && b.Name() == "len" && len(x.Call.Args) == 1 {
				if p, isP := x.Call.Args[0].(*ssa.Parameter); isP && p.Parent() == fn {
					return vInt(64), true
				}
			}
		}
		return unknown, false
	}}
	w.FromEntry()
	over := ""
	for _, ro := range w.Returns {
		for _, raw := range ro.Raw {
			if u, isLoad := raw.(*ssa.UnOp); isLoad {
				if g, isG := u.X.(*ssa.Global); isG && strings.Contains(g.Name(), "Overflow") {
					over = c.ipos(ro.Ret)
				}
			}
		}
	}
	if !matched {
		r.Unk(rule, short(fn), c.pos(fn.Pos()), "no test of the record's content type against handshake found")
		return
	}
	r.Check(over == "", rule, short(fn), c.pos(fn.Pos()), "a non-handshake record of ordinary size is never refused because the buffer is full", "a record that is not a handshake record is refused with the overflow error ("+over+") when the reassembly buffer is full: whoever parks the maximum number of fragments (unauthenticated, epoch 0) stops every later record, protected application data included")
}

// progressState is a path state: has the receive cursor been advanced on this path?
type progressState struct{ advanced bool }

func (p *progressState) Fork() PathState { q := *p; return &q }

// rulePostHandshakeProgress (C08): the loop that processes received DTLS 1.3 post-handshake
// messages pulls the message at the receive cursor; every way round the loop either advances the
// cursor or leaves the loop. A handler that answers a message with a fatal alert and returns
// without consuming it must not send the loop round again: it would pull and answer the same
// message forever (an authenticated peer's single unexpected message: >100000 alert datagrams in
// 300 ms, and the read loop parked behind the spinning state machine). Decided by enumerating the
// paths of one iteration (handlers followed) with "cursor stored" as path state.
func rulePostHandshakeProgress(c *Ctx, r *Report) {
	const rule = "post-handshake-progress"
	fn := c.need(r, rule, "(*"+pkgHS+".postHandshake).processPostHandshakeMessages")
	if fn == nil {
		return
	}
	r.Sites += len(fn.Blocks)
	pulls := findCalls(fn, nameHasSuffix("Cache).PullExact"))
	if len(pulls) != 1 {
		r.Unk(rule, short(fn), c.pos(fn.Pos()), "the pull at the receive cursor was not found")
		return
	}
	pull := pulls[0]
	var loop *natLoop
	for _, l := range naturalLoops(fn) {
		if l.blocks[pull.Block()] && (loop == nil || len(l.blocks) < len(loop.blocks)) {
			loop = l
		}
	}
	if loop == nil {
		r.Unk(rule, short(fn), c.ipos(pull), "the pull is not inside a loop")
		return
	}
	hdr := firstNonPhi(loop.header)
	stuck := ""
	rounds := 0
	isCursor := func(v ssa.Value) bool {
		_, f, _, ok := fieldLoad(v)
		return ok && f == "HandshakeRecvSequence"
	}
	// a comparison of the cursor with its own earlier value is the "did the handler consume the
	// message?" test: on the paths of interest (nothing stored) the two are equal
	follow := func(callee *ssa.Function) bool { return inModule(callee) && callee.Pkg == fn.Pkg }
	run := func(assumeUnchanged bool) (advancedRounds, stuckRounds int, overflow bool) {
		w := &Walk{Fn: fn, Follow: follow, FollowDeferring: true}
		if assumeUnchanged {
			w.Assume = func(v ssa.Value) (Val, bool) {
				if bo, ok := v.(*ssa.BinOp); ok && (bo.Op == token.EQL || bo.Op == token.NEQ) && isCursor(bo.X) && isCursor(bo.Y) {
					return vBool(bo.Op == token.EQL), true
				}
				return unknown, false
			}
		}
		w.Init = &progressState{}
		w.Step = func(in ssa.Instruction, st PathState, _ map[*ssa.Phi]ssa.Value) bool {
			ps := st.(*progressState)
			if store, ok := in.(*ssa.Store); ok {
				if _, f, _, okF := fieldOfAddr(store.Addr); okF && f == "HandshakeRecvSequence" {
					ps.advanced = true
				}
			}
			if in == hdr && in.Parent() == fn {
				if ps.advanced {
					advancedRounds++
				} else {
					stuckRounds++
				}
				return false
			}
			return true
		}
		w.After(pull)
		return advancedRounds, stuckRounds, w.overflow
	}
	// some way round the loop consumes a message (non-vacuity) ...
	rounds, _, of1 := run(false)
	// ... and no way round leaves the cursor where it was: explored with "cursor == its earlier
	// value" taken as true, which is what holds on exactly those paths
	_, stuckN, of2 := run(true)
	if of1 || of2 {
		r.Unk(rule, short(fn), c.ipos(pull), "path enumeration overflow")
		return
	}
	if stuckN > 0 {
		stuck = "yes"
	}
	r.Check(rounds > 0 && stuck == "", rule, short(fn), c.ipos(pull), fmt.Sprintf("every way round the loop (%d paths) advances the receive cursor", rounds), "the loop over received post-handshake messages can go round without advancing the receive cursor (a handler answered the message with an alert and returned without consuming it): the same message is pulled and answered forever")
}

// ruleServerNameVerifiedAsConfigured (C03): the name a server certificate is checked against is the
// name the application configured, as configured. A value that went through a function which can
// turn a non-empty name into the empty string (the SNI filter that blanks IP address literals) does
// not count: with an empty name the verifier checks the chain only, and a client told to reach
// 192.0.2.10 accepts a certificate that is valid for some other host. Sources are followed through
// helper results, struct fields and their stores.
func ruleServerNameVerifiedAsConfigured(c *Ctx, r *Report) {
	const rule = "server-name-verified-as-configured"
	// functions that can return "" although they take a name
	blanks := func(fn *ssa.Function) bool {
		if fn == nil || len(fn.Blocks) == 0 || !inModule(fn) {
			return false
		}
		for _, b := range fn.Blocks {
			if ret, ok := b.Instrs[len(b.Instrs)-1].(*ssa.Return); ok && len(ret.Results) == 1 {
				if k, isK := unspill(ret.Results[0]).(*ssa.Const); isK && k.Value != nil && k.Value.ExactString() == `""` {
					return true
				}
			}
		}
		return false
	}
	var direct func(v ssa.Value, d int, seen map[ssa.Value]bool) bool
	direct = func(v ssa.Value, d int, seen map[ssa.Value]bool) bool {
		if d > 5 || seen[v] {
			return false
		}
		seen[v] = true
		for _, l := range c.Origins(v, 0) {
			if call, idx := callOfResult(l); call != nil {
				callee := call.Call.StaticCallee()
				if blanks(callee) {
					continue // filtered: not a direct source
				}
				if callee != nil && inModule(callee) && len(callee.Blocks) > 0 {
					for _, b := range callee.Blocks {
						ret, ok := b.Instrs[len(b.Instrs)-1].(*ssa.Return)
						if !ok || idx >= len(ret.Results) {
							continue
						}
						for _, rl := range c.Origins(unspill(ret.Results[idx]), 0) {
							if p, isP := rl.(*ssa.Parameter); isP && p.Parent() == callee {
								if pi := paramIndex(p); pi >= 0 && pi < len(call.Call.Args) && direct(call.Call.Args[pi], d+1, seen) {
									return true
								}
								continue
							}
							// a field of the receiver / of a parameter: judged as a field of its type
							if direct(rl, d+1, seen) {
								return true
							}
						}
					}
				}
				continue
			}
			if o, f, _, ok := fieldLoad(l); ok {
				if f == "ServerName" && (o == "dtls.dtlsConfig" || o == "dtls.Config") {
					return true
				}
				for _, st := range c.StoresTo(o, f) {
					if direct(st.Val, d+1, seen) {
						return true
					}
				}
			}
		}
		return false
	}
	n := 0
	for _, s := range c.CallsTo(nameIs("internal/handshakecrypto.VerifyServerCert")) {
		call, ok := s.Call.(*ssa.Call)
		if !ok || len(call.Call.Args) < 3 || strings.HasSuffix(s.Fn.Pkg.Pkg.Path(), "internal/handshakecrypto") {
			continue
		}
		n++
		r.Sites++
		r.Check(direct(call.Call.Args[2], 0, map[ssa.Value]bool{}), rule, short(s.Fn), c.ipos(call), "the certificate is checked against the configured server name itself", "the name handed to the server-certificate check comes only from a value the SNI filter may have blanked (an IP address literal becomes the empty string): for such a name the certificate is not checked against any name at all")
	}
	r.Floor(rule, n, 2)
}

// ruleKeyLogClientRandom (C10): a key-log line is CLIENT_RANDOM <client random> <master secret>:
// the random written is the client's on either side: LocalRandom in the functions of client flight
// parsers, RemoteRandom in those of server flight parsers (sides are read off the parser registry:
// the flights a client sits in are 1, 3, 5, 5b). A server line keyed by the server random makes
// the resumed sessions of that server undecodable for a passive decoder holding the log.
func ruleKeyLogClientRandom(c *Ctx, r *Report) {
	const rule = "keylog-client-random"
	tbl := c.parserTable12(r, rule)
	if tbl == nil {
		return
	}
	clientFlights := map[string]bool{"Flight1": true, "Flight3": true, "Flight5": true, "Flight5b": true}
	side := map[*ssa.Function]map[string]bool{}
	for name, parser := range tbl {
		sd := "server"
		if clientFlights[name] {
			sd = "client"
		}
		for _, u := range c.pkgClosure(parser, 3) {
			if side[u] == nil {
				side[u] = map[string]bool{}
			}
			side[u][sd] = true
		}
	}
	if gens := c.generatorTable(r, rule, pkgF12); gens != nil {
		for name, row := range gens {
			if row.gen == nil {
				continue
			}
			sd := "server"
			if clientFlights[name] {
				sd = "client"
			}
			for _, u := range c.pkgClosure(row.gen, 3) {
				if side[u] == nil {
					side[u] = map[string]bool{}
				}
				side[u][sd] = true
			}
		}
	}
	n := 0
	for _, s := range c.CallsTo(nameHasSuffix("HandshakeConfig).WriteKeyLog")) {
		call, ok := s.Call.(*ssa.Call)
		if !ok || len(call.Call.Args) < 3 {
			continue
		}
		fn := s.Fn
		n++
		r.Sites++
		sd := side[fn]
		if len(sd) != 1 {
			r.Unk(rule, short(fn), c.ipos(call), "the function is not on exactly one side of the handshake")
			continue
		}
		want := "LocalRandom"
		who := "client"
		if sd["server"] {
			want, who = "RemoteRandom", "server"
		}
		r.Check(randomFrom(c, call.Call.Args[2], want), rule, short(fn), c.ipos(call), "on the "+who+" side the logged random is state."+want+" (the client's)", "the key-log line written on the "+who+" side is not keyed by the client random (state."+want+"): a passive decoder holding the key log cannot match it to the session")
	}
	r.Floor(rule, n, 4)
}

// ruleTrackEveryTransmission (C02, C20): every transmission of a flight is acknowledgeable: the
// record number of each tracked record is entered into the number -> fragments table whether or not
// its fragments are already pending from an earlier transmission. Otherwise only the first copy of a
// flight can be acknowledged, and an ACK that names the retransmitted copy is ignored.
func ruleTrackEveryTransmission(c *Ctx, r *Report) {
	const rule = "track-every-transmission"
	fn := c.need(r, rule, "(*"+pkgHS+".reliableFlight).track")
	if fn == nil {
		return
	}
	r.Sites += len(fn.Blocks)
	var ups []*ssa.MapUpdate
	for _, b := range fn.Blocks {
		for _, in := range b.Instrs {
			if mu, ok := in.(*ssa.MapUpdate); ok {
				if _, f, _, okF := fieldLoad(mu.Map); okF && f == "records" {
					ups = append(ups, mu)
				}
			}
		}
	}
	if len(ups) == 0 {
		r.Bad(rule, short(fn), c.pos(fn.Pos()), "tracked record numbers are never entered into the record table")
		return
	}
	// with every fragment already pending, the record number is still entered
	w := &Walk{Fn: fn, Assume: func(v ssa.Value) (Val, bool) {
		if ex, ok := v.(*ssa.Extract); ok && ex.Index == 1 {
			if lk, isLk := ex.Tuple.(*ssa.Lookup); isLk {
				if _, f, _, okF := fieldLoad(lk.X); okF && f == "pending" {
					return vBool(true), true
				}
			}
		}
		return unknown, false
	}}
	w.FromEntry()
	reached := false
	for _, mu := range ups {
		if w.Reached[mu] {
			reached = true
		}
	}
	r.Check(reached, rule, short(fn), c.ipos(ups[0]), "a record whose fragments are already pending is still entered under its own number", "the record number of a retransmission (all its fragments already pending) is not entered into the record table: an acknowledgement that names the retransmitted copy acknowledges nothing")
	// the key is the record's own number and the value its fragments
	for _, mu := range ups {
		_, kf, _, okK := fieldLoad(mu.Key)
		r.Check(okK && kf == "Number", rule, short(fn)+":key", c.ipos(mu), "keyed by the record's number", "the record table is not keyed by the tracked record's number")
	}
}

// ruleEncryptSeesMarshalledHeader (C02, C09, C05): a record is protected under the header that was
// put on the wire for it: between the allocation of its sequence number and the call that encrypts
// it, the record object handed to the cipher receives that header whole (not one field of it). A
// retransmitted packet otherwise goes out under a fresh number on the wire but is protected with
// the number of its first transmission, and the receiver discards it.
func ruleEncryptSeesMarshalledHeader(c *Ctx, r *Report) {
	const rule = "encrypt-sees-marshalled-header"
	n := 0
	for _, name := range []string{"(*dtls.Conn).processHandshakePacket", "(*dtls.Conn).processPacket"} {
		fn := c.Fn(name)
		if fn == nil {
			continue
		}
		allocs := findCalls(fn, nameIs("(*dtls.Conn).nextLocalSequenceNumber"))
		var encs []*ssa.Call
		for _, b := range fn.Blocks {
			for _, in := range b.Instrs {
				if call, ok := in.(*ssa.Call); ok && call.Call.IsInvoke() && call.Call.Method.Name() == "Encrypt" {
					encs = append(encs, call)
				}
			}
		}
		if len(allocs) == 0 || len(encs) == 0 {
			continue
		}
		r.Sites += len(fn.Blocks)
		isWholeHeaderStore := func(in ssa.Instruction) bool {
			st, ok := in.(*ssa.Store)
			if !ok {
				return false
			}
			o, f, _, okF := fieldOfAddr(st.Addr)
			if !okF || f != "Header" || !strings.HasSuffix(o, "recordlayer.RecordLayer") {
				return false
			}
			return strings.HasSuffix(namedOrType(st.Val.Type()), "recordlayer.Header")
		}
		for _, al := range allocs {
			w := &Walk{Fn: fn}
			// ... or the wire bytes are the record's own marshalling (its header is then the one
			// on the wire by construction)
			selfMarshal := func(in ssa.Instruction) bool {
				call, ok := in.(*ssa.Call)
				return ok && strings.HasSuffix(calleeName(&call.Call), "recordlayer.RecordLayer).Marshal")
			}
			w.Visit = func(in ssa.Instruction, _ Env) bool {
				return !isWholeHeaderStore(in) && !selfMarshal(in) && in != ssa.Instruction(al)
			}
			w.After(al)
			for _, enc := range encs {
				n++
				r.Check(!w.Reached[enc], rule, fmt.Sprintf("%s:Encrypt", short(fn)), c.ipos(enc), "the record handed to Encrypt carries the header marshalled for this transmission", "the cipher can be given a record object whose header was not replaced by the one marshalled for this transmission (only some field of it, or nothing): a retransmission is protected under the sequence number of the first transmission")
			}
		}
	}
	r.Floor(rule, n, 1)
}
