package main

import (
	"fmt"
	"go/token"
	"go/types"
	"sort"
	"strings"

	"golang.org/x/tools/go/ssa"
)

// ruleSuiteNeedsCredential (C03, C11): the configured suite list keeps a suite only if the endpoint
// holds the kind of credential that suite authenticates with: with certificate suites excluded
// (no certificate configured) no certificate suite is kept, with PSK suites excluded (no PSK
// callback) no PSK suite is kept. The client later decides whether to *demand* a certificate from
// the negotiated suite's authentication type but decides the key exchange from the configured PSK
// callback; a PSK suite kept without a PSK lets a server that proves nothing complete a handshake.
// Decided on the filter loop: the suite's authentication type and the include flag are bound, and
// the store that keeps the suite must be unreachable.
func ruleSuiteNeedsCredential(c *Ctx, r *Report) {
	const rule = "suite-needs-credential"
	fn := c.need(r, rule, "dtls.parseCipherSuitesForVersions")
	if fn == nil {
		return
	}
	r.Sites += len(fn.Blocks)
	auth := c.enumConsts("internal/ciphersuite/types", "AuthenticationType")
	if len(auth) < 3 {
		r.Unk(rule, "enum", "", "AuthenticationType constants not found")
		return
	}
	var incCert, incPSK *ssa.Parameter
	for _, p := range fn.Params {
		if bt, ok := p.Type().Underlying().(*types.Basic); ok && bt.Kind() == types.Bool {
			if incCert == nil {
				incCert = p
			} else if incPSK == nil {
				incPSK = p
			}
		}
	}
	if incCert == nil || incPSK == nil {
		r.Unk(rule, short(fn), c.pos(fn.Pos()), "the two include flags were not found among the parameters")
		return
	}
	// the "keep" effect: a store into an element of the suite slice, or an append of the loop element
	isKeep := func(in ssa.Instruction) bool {
		switch x := in.(type) {
		case *ssa.Store:
			if ia, ok := x.Addr.(*ssa.IndexAddr); ok {
				if sl, ok := ia.X.Type().Underlying().(*types.Slice); ok && strings.HasSuffix(namedOrType(sl.Elem()), "CipherSuite") {
					return true
				}
			}
		}
		return false
	}
	type cse struct {
		name     string
		authName string
		cert     bool
		psk      bool
		keep     bool
	}
	cases := []cse{
		{"certificate-suite-without-certificate", "AuthenticationTypeCertificate", false, true, false},
		{"psk-suite-without-psk", "AuthenticationTypePreSharedKey", true, false, false},
		{"certificate-suite-with-certificate", "AuthenticationTypeCertificate", true, false, true},
		{"psk-suite-with-psk", "AuthenticationTypePreSharedKey", false, true, true},
	}
	for _, cs := range cases {
		av, ok := auth[cs.authName]
		if !ok {
			r.Unk(rule, cs.name, "", cs.authName+" not found")
			continue
		}
		cc := cs
		w := &Walk{Fn: fn, Assume: func(v ssa.Value) (Val, bool) {
			if v == ssa.Value(incCert) {
				return vBool(cc.cert), true
			}
			if v == ssa.Value(incPSK) {
				return vBool(cc.psk), true
			}
			if call, ok := v.(*ssa.Call); ok && call.Call.IsInvoke() && call.Call.Method.Name() == "AuthenticationType" {
				return vInt(av), true
			}
			return unknown, false
		}}
		w.FromEntry()
		kept := false
		var at ssa.Instruction
		for in := range w.Reached {
			if in.Parent() == fn && isKeep(in) {
				kept = true
				if at == nil || in.Pos() < at.Pos() {
					at = in
				}
			}
		}
		pos := c.pos(fn.Pos())
		if at != nil {
			pos = c.ipos(at)
		}
		if cs.keep {
			r.Check(kept, rule, cs.name, pos, "a suite whose credential is configured is kept", "no path keeps a suite whose credential is configured (rule no longer matches the code)")
		} else {
			r.Check(!kept, rule, cs.name, pos, "a suite whose credential is not configured is dropped", "a "+strings.TrimPrefix(cs.authName, "AuthenticationType")+" suite stays in the configured list although the endpoint holds no such credential: a peer that selects it is never asked to authenticate")
		}
	}
}

// ruleLeafIsFirstPresented (C03): the certificate whose public key checks the handshake signature
// and the certificate that chain and name validation start from are the same one: the first the
// peer presented. The parsed chain is built by appending in presentation order and is never
// reordered; chain validation verifies element 0 of it; signature verification parses element 0
// of the raw list.
func ruleLeafIsFirstPresented(c *Ctx, r *Report) {
	const rule = "leaf-is-first-presented"
	lc := c.need(r, rule, "internal/handshakecrypto.loadCerts")
	if lc == nil {
		return
	}
	r.Sites += len(lc.Blocks)
	// (1) no element store into a slice of certificates: append only
	var reorder ssa.Instruction
	for _, u := range c.unitFuncs(lc) {
		for _, b := range u.Blocks {
			for _, in := range b.Instrs {
				st, ok := in.(*ssa.Store)
				if !ok {
					continue
				}
				if ia, ok := st.Addr.(*ssa.IndexAddr); ok {
					if sl, ok := ia.X.Type().Underlying().(*types.Slice); ok && strings.HasSuffix(types.TypeString(sl.Elem(), nil), "x509.Certificate") {
						if reorder == nil {
							reorder = in
						}
					}
				}
			}
		}
	}
	pos := c.pos(lc.Pos())
	if reorder != nil {
		pos = c.ipos(reorder)
	}
	r.Check(reorder == nil, rule, short(lc)+":order-preserved", pos, "the parsed chain is the presented chain, in order", "the parsed certificate list is reordered after parsing: chain and name validation then start from a certificate other than the one whose key verified the handshake signature (a peer can present its own key first and somebody else's valid certificate second)")
	// (2) every x509 Verify in the package is called on element 0 of a loadCerts result
	n := 0
	for _, fn := range c.fnsOfPkg("internal/handshakecrypto") {
		for _, b := range fn.Blocks {
			for _, in := range b.Instrs {
				call, ok := in.(*ssa.Call)
				if !ok || calleeName(&call.Call) != "(*crypto/x509.Certificate).Verify" {
					continue
				}
				n++
				recv := call.Call.Args[0]
				okRecv := false
				if u, isLoad := recv.(*ssa.UnOp); isLoad {
					if ia, isIA := u.X.(*ssa.IndexAddr); isIA {
						if k, isK := constInt(ia.Index); isK && k == 0 && valueFromCall(c, ia.X, nameIs("internal/handshakecrypto.loadCerts"), 0) {
							okRecv = true
						}
					}
				}
				r.Check(okRecv, rule, short(fn)+":verifies-first", c.ipos(call), "chain validation starts from element 0 of the parsed chain", "chain validation does not start from the first presented certificate")
			}
		}
	}
	// (3) the signature is checked with the key of raw element 0
	if vs := c.need(r, rule, "internal/handshakecrypto.verifyCertificateSignature"); vs != nil {
		good := false
		for _, u := range c.unitFuncs(vs) {
			for _, call := range findCalls(u, nameIs("crypto/x509.ParseCertificate")) {
				if ld, isLoad := call.Call.Args[0].(*ssa.UnOp); isLoad {
					if ia, isIA := ld.X.(*ssa.IndexAddr); isIA {
						if k, isK := constInt(ia.Index); isK && k == 0 {
							if _, isP := ia.X.(*ssa.Parameter); isP {
								good = true
							}
						}
					}
				}
			}
		}
		r.Check(good, rule, short(vs)+":signer-is-first", c.pos(vs.Pos()), "the signature is checked with the key of the first presented certificate", "the handshake signature is not checked with the key of the first presented certificate")
	}
	r.Floor(rule, n, 2)
}

// ruleRandomPopulated (C05, C14, C07): the hello random - the only per-connection input of the DTLS
// 1.2 key block besides the master secret - is filled from crypto/rand: in Random.Populate the
// bytes that crypto/rand.Read wrote end up in RandomBytes (read straight into the field, or copied
// into it from the buffer that was read into). Two resumptions of one session in the same second
// otherwise derive identical record keys, and a record of one authenticates on the other.
func ruleRandomPopulated(c *Ctx, r *Report) {
	const rule = "random-populated"
	fn := c.need(r, rule, "(*pkg/protocol/handshake.Random).Populate")
	if fn == nil {
		return
	}
	r.Sites += len(fn.Blocks)
	isRandField := func(v ssa.Value) bool {
		// a slice of (or the address of) receiver.RandomBytes
		for d := 0; d < 4 && v != nil; d++ {
			switch x := v.(type) {
			case *ssa.Slice:
				v = x.X
			case *ssa.FieldAddr:
				_, f, _, ok := fieldOfAddr(x)
				return ok && f == "RandomBytes"
			default:
				return false
			}
		}
		return false
	}
	reads := findCalls(fn, nameIs("crypto/rand.Read"))
	if len(reads) == 0 {
		r.Bad(rule, short(fn), c.pos(fn.Pos()), "the hello random is not read from crypto/rand")
		return
	}
	good := false
	for _, rd := range reads {
		buf := rd.Call.Args[0]
		if isRandField(buf) {
			good = true
			continue
		}
		for _, cp := range findCalls(fn, nameIs("builtin:copy")) {
			if !instrReaches(rd, cp) {
				continue
			}
			dst, src := cp.Call.Args[0], cp.Call.Args[1]
			srcIsBuf := src == buf || sameValue(src, buf) || anyLeaf(c.Origins(src, 0), func(l ssa.Value) bool { return anyLeaf(c.Origins(buf, 0), func(m ssa.Value) bool { return l == m }) })
			if isRandField(dst) && srcIsBuf {
				good = true
			}
		}
	}
	r.Check(good, rule, short(fn), c.ipos(reads[0]), "the bytes read from crypto/rand end up in RandomBytes", "the bytes read from crypto/rand never reach Random.RandomBytes (the random part of every hello stays what it was): record keys of two handshakes that share a master secret and a timestamp are identical")
	_ = sort.Strings
	_ = fmt.Sprint
	_ = token.ADD
}

// ruleHRRMessageHash (C10): RFC 8446 4.4.1: after a HelloRetryRequest the first ClientHello is
// replaced in the transcript by message_hash || 00 00 Hash.length || Hash(ClientHello1), where
// Hash is the *negotiated* transcript hash. In the function that rewrites the transcript the digest
// written behind the four-byte header is the Sum of the transcript's running hash (the value of the
// hash field, selected from the cipher suite), the header carries its length, and the new running
// hash starts from exactly that synthetic message.
func ruleHRRMessageHash(c *Ctx, r *Report) {
	const rule = "hrr-message-hash"
	fn := c.need(r, rule, "(*"+pkgHS+".Transcript).applyHelloRetryRequest")
	if fn == nil {
		return
	}
	r.Sites += len(fn.Blocks)
	// Sum invoked on the transcript's hash field
	var sums []*ssa.Call
	for _, b := range fn.Blocks {
		for _, in := range b.Instrs {
			call, ok := in.(*ssa.Call)
			if !ok || !call.Call.IsInvoke() || call.Call.Method.Name() != "Sum" {
				continue
			}
			if _, f, _, okF := fieldLoad(call.Call.Value); okF && f == "h" {
				sums = append(sums, call)
			}
		}
	}
	if len(sums) != 1 {
		r.Bad(rule, short(fn), c.pos(fn.Pos()), fmt.Sprintf("%d digests taken from the running transcript hash (expected one): the synthetic message_hash does not carry Hash(ClientHello1) under the negotiated hash", len(sums)))
		return
	}
	digest := sums[0]
	// the digest is what is copied behind the header, and its length is what the header carries
	copied, lenUsed := false, false
	for _, cp := range findCalls(fn, nameIs("builtin:copy")) {
		if allLeaves(c.Origins(cp.Call.Args[1], 0), func(l ssa.Value) bool { return l == ssa.Value(digest) }) {
			if sl, ok := cp.Call.Args[0].(*ssa.Slice); ok {
				if k, isK := constInt(sl.Low); isK && k == 4 {
					copied = true
				}
			}
		}
	}
	for _, b := range fn.Blocks {
		for _, in := range b.Instrs {
			if call, ok := in.(*ssa.Call); ok {
				if bi, isB := call.Call.Value.(*ssa.Builtin); isB && bi.Name() == "len" && len(call.Call.Args) == 1 && call.Call.Args[0] == ssa.Value(digest) {
					lenUsed = true
				}
			}
		}
	}
	r.Check(copied && lenUsed, rule, short(fn)+":digest", c.ipos(digest), "message_hash body = Sum of the running transcript hash, header carries its length", "the synthetic message_hash is not built from the Sum of the negotiated transcript hash (body at offset 4, length in the header): for a SHA-384 suite every secret derived after a HelloRetryRequest then differs from RFC 8446")
	// the type byte
	typ := c.enumConsts("pkg/protocol/handshake", "Type")
	okType := false
	for _, b := range fn.Blocks {
		for _, in := range b.Instrs {
			if st, ok := in.(*ssa.Store); ok {
				if ia, isIA := st.Addr.(*ssa.IndexAddr); isIA {
					if k, isK := constInt(ia.Index); isK && k == 0 {
						if v, isV := constInt(st.Val); isV && v == typ["TypeMessageHash"] {
							okType = true
						}
					}
				}
			}
		}
	}
	r.Check(okType, rule, short(fn)+":type", c.pos(fn.Pos()), "first byte = message_hash (254)", "the synthetic message does not start with the message_hash handshake type")
}

// ruleListenerRegistersAccepted (C08): a listener keeps routing state only for peers it handed to
// the accept queue: the insertion of a new connection into the routing map cannot be followed by
// the refusal exit (a non-nil error or a nil connection). Otherwise every source address that hits
// a full backlog leaves an orphan connection with an unbounded buffer behind, and a genuine client
// refused once is routed to its orphan forever.
func ruleListenerRegistersAccepted(c *Ctx, r *Report) {
	const rule = "listener-registers-accepted"
	n := 0
	for _, fn := range c.fnsOfPkg("internal/net/udp") {
		if len(fn.Blocks) == 0 {
			continue
		}
		// only functions that create the connection they register
		creates := len(findCalls(fn, func(nm string) bool { return strings.HasSuffix(nm, "listener).newPacketConn") })) > 0
		if !creates {
			continue
		}
		for _, b := range fn.Blocks {
			for _, in := range b.Instrs {
				mu, ok := in.(*ssa.MapUpdate)
				if !ok || !isFieldLoad(mu.Map, "internal/net/udp.listener", "conns") {
					continue
				}
				n++
				r.Sites += len(fn.Blocks)
				bad := ""
				for _, b2 := range fn.Blocks {
					ret, isRet := b2.Instrs[len(b2.Instrs)-1].(*ssa.Return)
					if !isRet || b2 == fn.Recover || !instrReaches(mu, ret) {
						continue
					}
					res := retResults(ret)
					refusal := false
					for _, v := range res {
						if isErrorType(v.Type()) && !isNilConst(v) {
							refusal = true
						}
					}
					if len(res) > 0 && isNilConst(res[0]) {
						refusal = true
					}
					if refusal {
						bad = c.ipos(ret)
					}
				}
				r.Check(bad == "", rule, short(fn), c.ipos(mu), "a connection is registered for routing only on the path that hands it to the accept queue", "a new connection is inserted into the routing map on a path that then refuses it ("+bad+"): it is never accepted or closed, its buffer grows without bound, and later datagrams of that peer are routed to it")
			}
		}
	}
	r.Floor(rule, n, 1)
}

// ruleKeyAgreementCurveMatchesKey (C01, C11): an ECDH key agreement runs on the curve of the private
// key it uses: the curve argument of prf.PreMasterSecret / EcdhePSKPreMasterSecret is the Curve of
// the very keypair whose private key is passed, or the group that keypair was looked up under, or
// (DTLS 1.3 server) the SelectedGroup of the state whose LocalKeypair is used. A curve taken from
// anywhere else (the endpoint's own preference, say) only works while both sides list their groups
// in the same order.
func ruleKeyAgreementCurveMatchesKey(c *Ctx, r *Report) {
	const rule = "key-agreement-curve-matches-key"
	n := 0
	for _, s := range c.CallsTo(nameIs("pkg/crypto/prf.PreMasterSecret", "pkg/crypto/prf.EcdhePSKPreMasterSecret")) {
		call, ok := s.Call.(*ssa.Call)
		if !ok || !inModule(s.Fn) || strings.HasSuffix(s.Fn.Pkg.Pkg.Path(), "pkg/crypto/prf") {
			continue
		}
		args := call.Call.Args
		priv, curve := args[len(args)-2], args[len(args)-1]
		n++
		r.Sites++
		key := fmt.Sprintf("%s:%s", short(s.Fn), strings.TrimPrefix(calleeName(&call.Call), "pkg/crypto/prf."))
		_, f, kp, okP := fieldLoad(priv)
		if !okP || f != "PrivateKey" {
			r.Unk(rule, key, c.ipos(call), "the private key argument is not the PrivateKey field of a keypair")
			continue
		}
		good := ""
		// (a) Curve of the same keypair
		if _, cf, cb, okC := fieldLoad(curve); okC && cf == "Curve" && (cb == kp || sameValue(cb, kp) || shapeOf(cb, 0) == shapeOf(kp, 0)) {
			good = "curve = Curve of the keypair whose private key is used"
		}
		// (b) the group the keypair was looked up under
		if good == "" {
			for _, l := range c.Origins(kp, 0) {
				var lk *ssa.Lookup
				switch x := l.(type) {
				case *ssa.Lookup:
					lk = x
				case *ssa.Extract:
					lk, _ = x.Tuple.(*ssa.Lookup)
				}
				if lk != nil && (lk.Index == curve || sameValue(lk.Index, curve) || shapeOf(lk.Index, 0) == shapeOf(curve, 0)) {
					good = "curve = the group the keypair was looked up under"
				}
			}
		}
		// (c) SelectedGroup and LocalKeypair of one state
		if good == "" {
			_, kf, kb, okK := fieldLoad(kp)
			_, cf, cb, okC := fieldLoad(curve)
			if okK && okC && kf == "LocalKeypair" && cf == "SelectedGroup" && (kb == cb || sameValue(kb, cb) || shapeOf(kb, 0) == shapeOf(cb, 0)) {
				good = "curve = SelectedGroup of the state whose LocalKeypair is used"
			}
		}
		r.Check(good != "", rule, key, c.ipos(call), good, "the key agreement runs on "+shapeOf(curve, 0)+", which is neither the curve of the private key "+shapeOf(priv, 0)+" nor the group it was selected under: peers that prefer their common groups in different orders cannot complete a handshake (or agree on different secrets)")
	}
	r.Floor(rule, n, 4)
}

// ruleEMSOffered (C01, C11): every ClientHello generator offers extended_master_secret exactly when
// the policy asks for it (request or require), whatever else is configured: with the policy bound to
// either value no successful exit of the generator is reachable without the extension having been
// built. The generator of the dual-stack ClientHello is negotiated from by a DTLS 1.2 server too;
// leaving the extension out there makes a require-policy pair fail and a request-policy pair skip
// the extended master secret silently.
func ruleEMSOffered(c *Ctx, r *Report) {
	const rule = "ems-offered"
	pol := c.enumConsts("internal/config", "ExtendedMasterSecretType")
	if len(pol) < 3 {
		r.Unk(rule, "enum", "", "ExtendedMasterSecretType constants not found")
		return
	}
	n := 0
	for _, pkg := range []string{pkgF12, pkgF13} {
		for _, fn := range c.fnsOfPkg(pkg) {
			if fn.Parent() != nil || len(fn.Blocks) == 0 {
				continue
			}
			// client hello generators: build a MessageClientHello and an ExtendedMasterSecret value
			var ems []ssa.Instruction
			hello := false
			for _, b := range fn.Blocks {
				for _, in := range b.Instrs {
					if al, ok := in.(*ssa.Alloc); ok {
						t := namedOrType(derefType(al.Type()))
						if strings.HasSuffix(t, "extension/dtls12.ExtendedMasterSecret") {
							ems = append(ems, in)
						}
						if strings.HasSuffix(t, "handshake.MessageClientHello") {
							hello = true
						}
					}
				}
			}
			if !hello {
				continue
			}
			n++
			r.Sites += len(fn.Blocks)
			if len(ems) == 0 {
				r.Bad(rule, short(fn), c.pos(fn.Pos()), "this ClientHello generator never builds the extended_master_secret extension")
				continue
			}
			isEMS := map[ssa.Instruction]bool{}
			for _, e := range ems {
				isEMS[e] = true
			}
			for _, pname := range []string{"RequestExtendedMasterSecret", "RequireExtendedMasterSecret"} {
				pv, ok := pol[pname]
				if !ok {
					continue
				}
				w := &Walk{Fn: fn, Follow: followSamePkg(fn), Assume: func(v ssa.Value) (Val, bool) {
					if _, f, _, ok := fieldLoad(v); ok && f == "ExtendedMasterSecret" && strings.HasSuffix(namedOrType(v.Type()), "ExtendedMasterSecretType") {
						return vInt(pv), true
					}
					return unknown, false
				}}
				w.Visit = func(in ssa.Instruction, _ Env) bool { return !isEMS[in] }
				w.FromEntry()
				leak := ""
				for _, ri := range possibleSuccessReturns(fn) {
					if w.Reached[ri] {
						leak = c.ipos(ri)
					}
				}
				r.Check(leak == "", rule, short(fn)+":"+pname, c.pos(fn.Pos()), "the extension is built on every successful path", "with the policy "+pname+" this ClientHello generator can succeed ("+leak+") without offering extended_master_secret")
			}
		}
	}
	r.Floor(rule, n, 3)
}

// ruleUnauthenticatedCCSBounded (C05, C06, C08): a ChangeCipherSpec record is the one content type
// every DTLS 1.2 Decrypt hands through without authentication. Its consumer therefore may act only
// on the one that is legitimate: the epoch-0 ChangeCipherSpec of the handshake (there is no
// renegotiation). With the record's epoch different from 0 the consumer neither moves the read
// epoch nor invokes the replay-window commit. Otherwise one forged 14-byte datagram with a chosen
// sequence number advances the read epoch of an established connection and marks that number as
// received: the genuine records that follow are dropped.
func ruleUnauthenticatedCCSBounded(c *Ctx, r *Report) {
	const rule = "unauthenticated-ccs-bounded"
	fn := c.need(r, rule, "(*dtls.Conn).handleChangeCipherSpecRecord")
	if fn == nil {
		return
	}
	r.Sites += len(fn.Blocks)
	isEpoch := func(v ssa.Value) bool {
		return isFieldLoad(v, "pkg/protocol/recordlayer.Header", "Epoch")
	}
	w := &Walk{Fn: fn, Follow: followSamePkg(fn), FollowDeferring: true, Assume: func(v ssa.Value) (Val, bool) {
		bo, ok := v.(*ssa.BinOp)
		if !ok {
			return unknown, false
		}
		x, y := bo.X, bo.Y
		if k, isK := constInt(x); isK && k == 0 && isEpoch(y) {
			x, y = y, x
		}
		if k, isK := constInt(y); !(isK && k == 0 && isEpoch(x)) {
			return unknown, false
		}
		switch bo.Op { // epoch ? 0 with epoch >= 1
		case token.EQL, token.LEQ:
			return vBool(false), true
		case token.NEQ, token.GTR:
			return vBool(true), true
		}
		return unknown, false
	}}
	w.FromEntry()
	var effects []string
	for in := range w.Reached {
		call, ok := in.(*ssa.Call)
		if !ok {
			continue
		}
		if strings.HasSuffix(calleeName(&call.Call), "dtls.Conn).setRemoteEpoch") {
			effects = append(effects, "moves the read epoch ("+c.ipos(in)+")")
		}
		if call.Call.StaticCallee() == nil && !call.Call.IsInvoke() {
			if _, f, _, okF := fieldLoad(call.Call.Value); okF && f == "markPacketAsValid" {
				effects = append(effects, "commits the sequence number to the replay window ("+c.ipos(in)+")")
			}
		}
	}
	sort.Strings(effects)
	r.Check(len(effects) == 0, rule, short(fn), c.pos(fn.Pos()), "a ChangeCipherSpec of an epoch other than 0 has no effect", "a ChangeCipherSpec record that claims an epoch other than 0 (never authenticated: Decrypt hands the type through) "+strings.Join(dedup(effects), " and ")+": one forged datagram wedges an established connection")
}

// ruleUnprotectedAlertBounded (C08, C16, C05): an alert in an epoch-0 record is not authenticated.
// It is the peer's only while the peer has not switched to a protected epoch; once this side has
// accepted the peer's change of epoch (read epoch != 0) an unprotected alert has no effect: the
// consumer neither returns the alert as an error (which closes the connection) nor answers it.
func ruleUnprotectedAlertBounded(c *Ctx, r *Report) {
	const rule = "unprotected-alert-bounded"
	fn := c.need(r, rule, "(*dtls.Conn).handleRecordContent")
	if fn == nil {
		return
	}
	r.Sites += len(fn.Blocks)
	isEpoch := func(v ssa.Value) bool { return isFieldLoad(v, "pkg/protocol/recordlayer.Header", "Epoch") }
	matchedEpoch := false
	w := &Walk{Fn: fn, Follow: followSamePkg(fn), FollowDeferring: true, Assume: func(v ssa.Value) (Val, bool) {
		switch x := v.(type) {
		case *ssa.BinOp:
			a, b := x.X, x.Y
			if k, isK := constInt(a); isK && k == 0 && isEpoch(b) {
				a, b = b, a
			}
			if k, isK := constInt(b); isK && k == 0 && isEpoch(a) { // record epoch ? 0, with epoch == 0
				matchedEpoch = true
				switch x.Op {
				case token.EQL, token.LEQ:
					return vBool(true), true
				case token.NEQ, token.GTR:
					return vBool(false), true
				}
			}
		case *ssa.Call:
			if strings.HasSuffix(calleeName(&x.Call), "Common).RemoteEpoch") {
				return vInt(1), true
			}
		case *ssa.Extract:
			// the type switch took the alert arm
			if ta, ok := x.Tuple.(*ssa.TypeAssert); ok && ta.CommaOk && x.Index == 1 {
				return vBool(strings.HasSuffix(namedOrType(derefType(ta.AssertedType)), "pkg/protocol/alert.Alert")), true
			}
		}
		return unknown, false
	}}
	w.FromEntry()
	var effects []string
	for in := range w.Reached {
		if al, ok := in.(*ssa.Alloc); ok && in.Parent() == fn {
			t := namedOrType(derefType(al.Type()))
			if strings.HasSuffix(t, "dtls.alertError") {
				effects = append(effects, "is returned as an alert error, which closes the connection ("+c.ipos(in)+")")
			}
		}
	}
	sort.Strings(effects)
	if !matchedEpoch && len(effects) > 0 {
		r.Bad(rule, short(fn), c.pos(fn.Pos()), "the alert consumer never looks at the epoch of the record: an unprotected alert "+strings.Join(dedup(effects), " and ")+" at any time, so anyone who can reach the socket closes an established session with one datagram")
		return
	}
	r.Check(len(effects) == 0, rule, short(fn), c.pos(fn.Pos()), "an unprotected alert has no effect once the read epoch is protected", "an alert in an epoch-0 record, received after the peer switched to a protected epoch, "+strings.Join(dedup(effects), " and ")+": anyone who can reach the socket closes an established session with one datagram")
}

// ruleBufferLimitOnlyForHandshake (C08): every received record is first offered to the handshake
// reassembly buffer; the buffer's fill limits (bytes held, fragments held) may refuse only what
// would enter it. With the record's content type different from handshake the overflow error is
// unreachable - otherwise an unauthenticated sender who parks the maximum number of far-future
// fragments stops all application data, alerts and acknowledgements for good. (A record that by its
// own size can never be stored may be refused whatever it is.)
func ruleBufferLimitOnlyForHandshake(c *Ctx, r *Report) {
	const rule = "buffer-limit-only-for-handshake"
	fn := c.need(r, rule, "(*internal/fragmentbuffer.FragmentBuffer).Push")
	if fn == nil {
		return
	}
	r.Sites += len(fn.Blocks)
	ct := c.enumConsts("pkg/protocol", "ContentType")
	hs, ok := ct["ContentTypeHandshake"]
	if !ok {
		r.Unk(rule, short(fn), c.pos(fn.Pos()), "ContentTypeHandshake not found")
		return
	}
	matched := false
	w := &Walk{Fn: fn, Follow: followSamePkg(fn), Assume: func(v ssa.Value) (Val, bool) {
		switch x := v.(type) {
		case *ssa.BinOp:
			if x.Op != token.EQL && x.Op != token.NEQ {
				break
			}
			for _, pr := range [][2]ssa.Value{{x.X, x.Y}, {x.Y, x.X}} {
				if _, f, _, okF := fieldLoad(pr[0]); okF && f == "ContentType" {
					if k, isK := constInt(pr[1]); isK && k == hs {
						matched = true
						return vBool(x.Op == token.NEQ), true
					}
				}
			}
		case *ssa.Call:
			// the accumulated fill, not the size of this record: size() and the counters are unknown;
			// len(buf) is taken to be small (an ordinary record)
			if b, isB := x.Call.Value.(*ssa.Builtin); isB && b.Name() == "len" && len(x.Call.Args) == 1 {
				if p, isP := x.Call.Args[0].(*ssa.Parameter); isP && p.Parent() == fn {
					return vInt(64), true
				}
			}
		}
		return unknown, false
	}}
	w.FromEntry()
	over := ""
	for _, ro := range w.Returns {
		for _, raw := range ro.Raw {
			if u, isLoad := raw.(*ssa.UnOp); isLoad {
				if g, isG := u.X.(*ssa.Global); isG && strings.Contains(g.Name(), "Overflow") {
					over = c.ipos(ro.Ret)
				}
			}
		}
	}
	if !matched {
		r.Unk(rule, short(fn), c.pos(fn.Pos()), "no test of the record's content type against handshake found")
		return
	}
	r.Check(over == "", rule, short(fn), c.pos(fn.Pos()), "a non-handshake record of ordinary size is never refused because the buffer is full", "a record that is not a handshake record is refused with the overflow error ("+over+") when the reassembly buffer is full: whoever parks the maximum number of fragments (unauthenticated, epoch 0) stops every later record, protected application data included")
}

// progressState is a path state: has the receive cursor been advanced on this path?
type progressState struct{ advanced bool }

func (p *progressState) Fork() PathState { q := *p; return &q }

// rulePostHandshakeProgress (C08): the loop that processes received DTLS 1.3 post-handshake
// messages pulls the message at the receive cursor; every way round the loop either advances the
// cursor or leaves the loop. A handler that answers a message with a fatal alert and returns
// without consuming it must not send the loop round again: it would pull and answer the same
// message forever (an authenticated peer's single unexpected message: >100000 alert datagrams in
// 300 ms, and the read loop parked behind the spinning state machine). Decided by enumerating the
// paths of one iteration (handlers followed) with "cursor stored" as path state.
func rulePostHandshakeProgress(c *Ctx, r *Report) {
	const rule = "post-handshake-progress"
	fn := c.need(r, rule, "(*"+pkgHS+".postHandshake).processPostHandshakeMessages")
	if fn == nil {
		return
	}
	r.Sites += len(fn.Blocks)
	pulls := findCalls(fn, nameHasSuffix("Cache).PullExact"))
	if len(pulls) != 1 {
		r.Unk(rule, short(fn), c.pos(fn.Pos()), "the pull at the receive cursor was not found")
		return
	}
	pull := pulls[0]
	var loop *natLoop
	for _, l := range naturalLoops(fn) {
		if l.blocks[pull.Block()] && (loop == nil || len(l.blocks) < len(loop.blocks)) {
			loop = l
		}
	}
	if loop == nil {
		r.Unk(rule, short(fn), c.ipos(pull), "the pull is not inside a loop")
		return
	}
	hdr := firstNonPhi(loop.header)
	stuck := ""
	rounds := 0
	isCursor := func(v ssa.Value) bool {
		_, f, _, ok := fieldLoad(v)
		return ok && f == "HandshakeRecvSequence"
	}
	// a comparison of the cursor with its own earlier value is the "did the handler consume the
	// message?" test: on the paths of interest (nothing stored) the two are equal
	follow := func(callee *ssa.Function) bool { return inModule(callee) && callee.Pkg == fn.Pkg }
	run := func(assumeUnchanged bool) (advancedRounds, stuckRounds int, overflow bool) {
		w := &Walk{Fn: fn, Follow: follow, FollowDeferring: true}
		if assumeUnchanged {
			w.Assume = func(v ssa.Value) (Val, bool) {
				if bo, ok := v.(*ssa.BinOp); ok && (bo.Op == token.EQL || bo.Op == token.NEQ) && isCursor(bo.X) && isCursor(bo.Y) {
					return vBool(bo.Op == token.EQL), true
				}
				return unknown, false
			}
		}
		w.Init = &progressState{}
		w.Step = func(in ssa.Instruction, st PathState, _ map[*ssa.Phi]ssa.Value) bool {
			ps := st.(*progressState)
			if store, ok := in.(*ssa.Store); ok {
				if _, f, _, okF := fieldOfAddr(store.Addr); okF && f == "HandshakeRecvSequence" {
					ps.advanced = true
				}
			}
			if in == hdr && in.Parent() == fn {
				if ps.advanced {
					advancedRounds++
				} else {
					stuckRounds++
				}
				return false
			}
			return true
		}
		w.After(pull)
		return advancedRounds, stuckRounds, w.overflow
	}
	// some way round the loop consumes a message (non-vacuity) ...
	rounds, _, of1 := run(false)
	// ... and no way round leaves the cursor where it was: explored with "cursor == its earlier
	// value" taken as true, which is what holds on exactly those paths
	_, stuckN, of2 := run(true)
	if of1 || of2 {
		r.Unk(rule, short(fn), c.ipos(pull), "path enumeration overflow")
		return
	}
	if stuckN > 0 {
		stuck = "yes"
	}
	r.Check(rounds > 0 && stuck == "", rule, short(fn), c.ipos(pull), fmt.Sprintf("every way round the loop (%d paths) advances the receive cursor", rounds), "the loop over received post-handshake messages can go round without advancing the receive cursor (a handler answered the message with an alert and returned without consuming it): the same message is pulled and answered forever")
}

// ruleServerNameVerifiedAsConfigured (C03): the name a server certificate is checked against is the
// name the application configured, as configured. A value that went through a function which can
// turn a non-empty name into the empty string (the SNI filter that blanks IP address literals) does
// not count: with an empty name the verifier checks the chain only, and a client told to reach
// 192.0.2.10 accepts a certificate that is valid for some other host. Sources are followed through
// helper results, struct fields and their stores.
func ruleServerNameVerifiedAsConfigured(c *Ctx, r *Report) {
	const rule = "server-name-verified-as-configured"
	// functions that can return "" although they take a name
	blanks := func(fn *ssa.Function) bool {
		if fn == nil || len(fn.Blocks) == 0 || !inModule(fn) {
			return false
		}
		for _, b := range fn.Blocks {
			if ret, ok := b.Instrs[len(b.Instrs)-1].(*ssa.Return); ok && len(ret.Results) == 1 {
				if k, isK := unspill(ret.Results[0]).(*ssa.Const); isK && k.Value != nil && k.Value.ExactString() == `""` {
					return true
				}
			}
		}
		return false
	}
	var direct func(v ssa.Value, d int, seen map[ssa.Value]bool) bool
	direct = func(v ssa.Value, d int, seen map[ssa.Value]bool) bool {
		if d > 5 || seen[v] {
			return false
		}
		seen[v] = true
		for _, l := range c.Origins(v, 0) {
			if call, idx := callOfResult(l); call != nil {
				callee := call.Call.StaticCallee()
				if blanks(callee) {
					continue // filtered: not a direct source
				}
				if callee != nil && inModule(callee) && len(callee.Blocks) > 0 {
					for _, b := range callee.Blocks {
						ret, ok := b.Instrs[len(b.Instrs)-1].(*ssa.Return)
						if !ok || idx >= len(ret.Results) {
							continue
						}
						for _, rl := range c.Origins(unspill(ret.Results[idx]), 0) {
							if p, isP := rl.(*ssa.Parameter); isP && p.Parent() == callee {
								if pi := paramIndex(p); pi >= 0 && pi < len(call.Call.Args) && direct(call.Call.Args[pi], d+1, seen) {
									return true
								}
								continue
							}
							// a field of the receiver / of a parameter: judged as a field of its type
							if direct(rl, d+1, seen) {
								return true
							}
						}
					}
				}
				continue
			}
			if o, f, _, ok := fieldLoad(l); ok {
				if f == "ServerName" && (o == "dtls.dtlsConfig" || o == "dtls.Config") {
					return true
				}
				for _, st := range c.StoresTo(o, f) {
					if direct(st.Val, d+1, seen) {
						return true
					}
				}
			}
		}
		return false
	}
	n := 0
	for _, s := range c.CallsTo(nameIs("internal/handshakecrypto.VerifyServerCert")) {
		call, ok := s.Call.(*ssa.Call)
		if !ok || len(call.Call.Args) < 3 || strings.HasSuffix(s.Fn.Pkg.Pkg.Path(), "internal/handshakecrypto") {
			continue
		}
		n++
		r.Sites++
		r.Check(direct(call.Call.Args[2], 0, map[ssa.Value]bool{}), rule, short(s.Fn), c.ipos(call), "the certificate is checked against the configured server name itself", "the name handed to the server-certificate check comes only from a value the SNI filter may have blanked (an IP address literal becomes the empty string): for such a name the certificate is not checked against any name at all")
	}
	r.Floor(rule, n, 2)
}

// ruleKeyLogClientRandom (C10): a key-log line is CLIENT_RANDOM <client random> <master secret>:
// the random written is the client's on either side: LocalRandom in the functions of client flight
// parsers, RemoteRandom in those of server flight parsers (sides are read off the parser registry:
// the flights a client sits in are 1, 3, 5, 5b). A server line keyed by the server random makes
// the resumed sessions of that server undecodable for a passive decoder holding the log.
func ruleKeyLogClientRandom(c *Ctx, r *Report) {
	const rule = "keylog-client-random"
	tbl := c.parserTable12(r, rule)
	if tbl == nil {
		return
	}
	clientFlights := map[string]bool{"Flight1": true, "Flight3": true, "Flight5": true, "Flight5b": true}
	side := map[*ssa.Function]map[string]bool{}
	for name, parser := range tbl {
		sd := "server"
		if clientFlights[name] {
			sd = "client"
		}
		for _, u := range c.pkgClosure(parser, 3) {
			if side[u] == nil {
				side[u] = map[string]bool{}
			}
			side[u][sd] = true
		}
	}
	if gens := c.generatorTable(r, rule, pkgF12); gens != nil {
		for name, row := range gens {
			if row.gen == nil {
				continue
			}
			sd := "server"
			if clientFlights[name] {
				sd = "client"
			}
			for _, u := range c.pkgClosure(row.gen, 3) {
				if side[u] == nil {
					side[u] = map[string]bool{}
				}
				side[u][sd] = true
			}
		}
	}
	n := 0
	for _, s := range c.CallsTo(nameHasSuffix("HandshakeConfig).WriteKeyLog")) {
		call, ok := s.Call.(*ssa.Call)
		if !ok || len(call.Call.Args) < 3 {
			continue
		}
		fn := s.Fn
		n++
		r.Sites++
		sd := side[fn]
		if len(sd) != 1 {
			r.Unk(rule, short(fn), c.ipos(call), "the function is not on exactly one side of the handshake")
			continue
		}
		want := "LocalRandom"
		who := "client"
		if sd["server"] {
			want, who = "RemoteRandom", "server"
		}
		r.Check(randomFrom(c, call.Call.Args[2], want), rule, short(fn), c.ipos(call), "on the "+who+" side the logged random is state."+want+" (the client's)", "the key-log line written on the "+who+" side is not keyed by the client random (state."+want+"): a passive decoder holding the key log cannot match it to the session")
	}
	r.Floor(rule, n, 4)
}

// ruleTrackEveryTransmission (C02, C20): every transmission of a flight is acknowledgeable: the
// record number of each tracked record is entered into the number -> fragments table whether or not
// its fragments are already pending from an earlier transmission. Otherwise only the first copy of a
// flight can be acknowledged, and an ACK that names the retransmitted copy is ignored.
func ruleTrackEveryTransmission(c *Ctx, r *Report) {
	const rule = "track-every-transmission"
	fn := c.need(r, rule, "(*"+pkgHS+".reliableFlight).track")
	if fn == nil {
		return
	}
	r.Sites += len(fn.Blocks)
	var ups []*ssa.MapUpdate
	for _, b := range fn.Blocks {
		for _, in := range b.Instrs {
			if mu, ok := in.(*ssa.MapUpdate); ok {
				if _, f, _, okF := fieldLoad(mu.Map); okF && f == "records" {
					ups = append(ups, mu)
				}
			}
		}
	}
	if len(ups) == 0 {
		r.Bad(rule, short(fn), c.pos(fn.Pos()), "tracked record numbers are never entered into the record table")
		return
	}
	// with every fragment already pending, the record number is still entered
	w := &Walk{Fn: fn, Assume: func(v ssa.Value) (Val, bool) {
		if ex, ok := v.(*ssa.Extract); ok && ex.Index == 1 {
			if lk, isLk := ex.Tuple.(*ssa.Lookup); isLk {
				if _, f, _, okF := fieldLoad(lk.X); okF && f == "pending" {
					return vBool(true), true
				}
			}
		}
		return unknown, false
	}}
	w.FromEntry()
	reached := false
	for _, mu := range ups {
		if w.Reached[mu] {
			reached = true
		}
	}
	r.Check(reached, rule, short(fn), c.ipos(ups[0]), "a record whose fragments are already pending is still entered under its own number", "the record number of a retransmission (all its fragments already pending) is not entered into the record table: an acknowledgement that names the retransmitted copy acknowledges nothing")
	// the key is the record's own number and the value its fragments
	for _, mu := range ups {
		_, kf, _, okK := fieldLoad(mu.Key)
		r.Check(okK && kf == "Number", rule, short(fn)+":key", c.ipos(mu), "keyed by the record's number", "the record table is not keyed by the tracked record's number")
	}
}

// ruleEncryptSeesMarshalledHeader (C02, C09, C05): a record is protected under the header that was
// put on the wire for it: between the allocation of its sequence number and the call that encrypts
// it, the record object handed to the cipher receives that header whole (not one field of it). A
// retransmitted packet otherwise goes out under a fresh number on the wire but is protected with
// the number of its first transmission, and the receiver discards it.
func ruleEncryptSeesMarshalledHeader(c *Ctx, r *Report) {
	const rule = "encrypt-sees-marshalled-header"
	n := 0
	for _, name := range []string{"(*dtls.Conn).processHandshakePacket", "(*dtls.Conn).processPacket"} {
		fn := c.Fn(name)
		if fn == nil {
			continue
		}
		allocs := findCalls(fn, nameIs("(*dtls.Conn).nextLocalSequenceNumber"))
		var encs []*ssa.Call
		for _, b := range fn.Blocks {
			for _, in := range b.Instrs {
				if call, ok := in.(*ssa.Call); ok && call.Call.IsInvoke() && call.Call.Method.Name() == "Encrypt" {
					encs = append(encs, call)
				}
			}
		}
		if len(allocs) == 0 || len(encs) == 0 {
			continue
		}
		r.Sites += len(fn.Blocks)
		isWholeHeaderStore := func(in ssa.Instruction) bool {
			st, ok := in.(*ssa.Store)
			if !ok {
				return false
			}
			o, f, _, okF := fieldOfAddr(st.Addr)
			if !okF || f != "Header" || !strings.HasSuffix(o, "recordlayer.RecordLayer") {
				return false
			}
			return strings.HasSuffix(namedOrType(st.Val.Type()), "recordlayer.Header")
		}
		for _, al := range allocs {
			// the framing may sit in private helpers: they are followed
			w := &Walk{Fn: fn, Follow: followSamePkgExcept(fn, "nextLocalSequenceNumber"), FollowDeferring: true}
			// ... or the wire bytes are the record's own marshalling (its header is then the one
			// on the wire by construction)
			selfMarshal := func(in ssa.Instruction) bool {
				call, ok := in.(*ssa.Call)
				return ok && strings.HasSuffix(calleeName(&call.Call), "recordlayer.RecordLayer).Marshal")
			}
			w.Visit = func(in ssa.Instruction, _ Env) bool {
				return !isWholeHeaderStore(in) && !selfMarshal(in) && in != ssa.Instruction(al)
			}
			w.After(al)
			for _, enc := range encs {
				n++
				r.Check(!w.Reached[enc], rule, fmt.Sprintf("%s:Encrypt", short(fn)), c.ipos(enc), "the record handed to Encrypt carries the header marshalled for this transmission", "the cipher can be given a record object whose header was not replaced by the one marshalled for this transmission (only some field of it, or nothing): a retransmission is protected under the sequence number of the first transmission")
			}
		}
	}
	r.Floor(rule, n, 1)
}

// ruleALPNCommitMatchesWire (C01): like the connection IDs and the SRTP profile, the application
// protocol a server records for the session is the one in the ServerHello it actually sends: every
// function that finalises a ServerHello (a user hook may rewrite it) stores NegotiatedProtocol after
// the finalisation, from the ALPN selection found in the finalised message (or the empty string).
// A value recorded before the hook leaves the two sides with different protocols when the hook
// drops or changes the extension.
func ruleALPNCommitMatchesWire(c *Ctx, r *Report) {
	const rule = "alpn-commit-matches-wire"
	n := 0
	for _, s := range c.CallsTo(nameIs("internal/negotiation.FinalizeServerHello")) {
		fin, ok := s.Call.(*ssa.Call)
		if !ok {
			continue
		}
		fn := s.Fn
		// only generators that deal with ALPN at all
		if len(findCalls(fn, nameHasSuffix("extension.ALPNProtocolSelection"))) == 0 {
			continue
		}
		n++
		r.Sites += len(fn.Blocks)
		after := 0
		fromWire := true
		var wire, other []ssa.Instruction
		for _, st := range c.StoresTo(tCom, "NegotiatedProtocol") {
			if st.Fn != fn || !instrDominates(fin, st.Instr) {
				continue
			}
			after++
			if k, isK := st.Val.(*ssa.Const); isK && k.Value != nil && k.Value.ExactString() == `""` {
				other = append(other, st.Instr)
				continue
			}
			if !allLeaves(c.Origins(st.Val, 0), func(l ssa.Value) bool {
				o, f, _, okF := fieldLoad(l)
				return okF && f == "Protocol" && strings.HasSuffix(o, "extension.ALPNSelection")
			}) {
				fromWire = false
			} else {
				wire = append(wire, st.Instr)
			}
		}
		// the value taken from the wire is the last word: no reset can follow it
		for _, w := range wire {
			for _, o := range other {
				if instrReaches(w, o) {
					fromWire = false
				}
			}
		}
		if len(wire) == 0 {
			fromWire = false
		}
		r.Check(after > 0 && fromWire, rule, short(fn), c.ipos(fin), "NegotiatedProtocol is committed after the ServerHello was finalised, from its ALPN selection", "the server records the negotiated application protocol before the ServerHello is finalised (a message hook may drop or change the ALPN extension) and never from the finalised message: both sides can report success with different protocols")
	}
	r.Floor(rule, n, 2)
}

// ruleAlertErrorNotMasked (C16): when a received record yields an error (the received fatal alert or
// close_notify is such an error - it is what makes the read loop close the connection) and the
// answer alert cannot be written either, the error reported is still the one of the received
// record: with both failing, every return of the function hands back the first error.
func ruleAlertErrorNotMasked(c *Ctx, r *Report) {
	const rule = "alert-error-not-masked"
	fn := c.need(r, rule, "(*dtls.Conn).processIncomingPacket")
	if fn == nil {
		return
	}
	r.Sites += len(fn.Blocks)
	hs := findCalls(fn, nameIs("(*dtls.Conn).handleIncomingPacket"))
	ns := findCalls(fn, nameIs("(*dtls.Conn).notify"))
	if len(hs) != 1 || len(ns) == 0 {
		r.Unk(rule, short(fn), c.pos(fn.Pos()), "expected one handleIncomingPacket call and a notify call")
		return
	}
	first := errResult(hs[0])
	w := &Walk{Fn: fn, Assume: func(v ssa.Value) (Val, bool) {
		if v == first {
			return vNil(false), true
		}
		for _, n := range ns {
			if v == ssa.Value(n) {
				return vNil(false), true
			}
		}
		return unknown, false
	}}
	isNotifyErr := func(v ssa.Value) bool {
		for _, n := range ns {
			if v == ssa.Value(n) {
				return true
			}
		}
		return false
	}
	bad := ""
	// what is examined for a received alert (errors.As) is the first error too
	w.VisitRaw = func(in ssa.Instruction, _ Env, raw map[*ssa.Phi]ssa.Value) bool {
		if call, ok := in.(*ssa.Call); ok && calleeName(&call.Call) == "errors.As" && len(call.Call.Args) > 0 {
			if isNotifyErr(resolvePhis(call.Call.Args[0], raw)) {
				bad = c.ipos(in)
			}
		}
		return true
	}
	w.FromEntry()
	for _, ro := range w.Returns {
		last := len(ro.Raw) - 1
		if last < 0 {
			continue
		}
		if isNotifyErr(resolvePhis(ro.Raw[last], ro.RawEnv)) {
			bad = c.ipos(ro.Ret)
		}
	}
	r.Check(len(w.Returns) > 0 && bad == "", rule, short(fn), c.ipos(hs[0]), "the error of the received record is reported even when the answer alert cannot be written", "when the answer alert cannot be written its write error replaces the error of the received record ("+bad+"): a received close_notify or fatal alert then no longer closes the connection and Read returns the transport error instead of EOF")
}

// ruleTimerAfterStart (C17): the post-handshake retransmission timer of the finished state is taken
// after queued commands were started: starting a command creates the flight whose deadline the
// timer must carry. Taken before, a flight created in this round has no timer case in the select,
// and under silence it is never retransmitted.
func ruleTimerAfterStart(c *Ctx, r *Report) {
	const rule = "post-handshake-timer-after-start"
	fn := c.need(r, rule, "(*"+pkgHS+".fsm13).finish")
	if fn == nil {
		return
	}
	r.Sites += len(fn.Blocks)
	var starts, timers []*ssa.Call
	for _, u := range c.unitFuncs(fn) {
		if u != fn {
			continue
		}
		starts = append(starts, findCalls(u, nameHasSuffix("postHandshake).startQueuedPostHandshake"))...)
		timers = append(timers, findCalls(u, nameHasSuffix("postHandshake).nextTimer"))...)
	}
	if len(starts) == 0 || len(timers) == 0 {
		r.Unk(rule, short(fn), c.pos(fn.Pos()), "start of queued commands or timer computation not found")
		return
	}
	good := true
	for _, t := range timers {
		dom := false
		for _, s := range starts {
			if instrDominates(s, t) {
				dom = true
			}
		}
		if !dom {
			good = false
		}
	}
	r.Check(good, rule, short(fn), c.ipos(timers[0]), "the timer is computed after the queued commands were started", "the retransmission timer of the finished state is computed before the queued commands are started: a flight created in this round (session ticket, key update) has no timer, and while the peer is silent it is never retransmitted")
}

// ruleRRCKnownTypesRoundTrip (C18): every return-routability message type the codec knows
// (path_challenge, path_response, path_drop) is decoded with its cookie and with the exact-length
// check; only unknown types are tolerated without. With the type bound to each known constant no
// successful exit of the decoder is reachable without the copy into the cookie.
func ruleRRCKnownTypesRoundTrip(c *Ctx, r *Report) {
	const rule = "rrc-known-types-round-trip"
	fn := c.need(r, rule, "(*pkg/protocol.ReturnRoutabilityCheck).Unmarshal")
	if fn == nil {
		return
	}
	r.Sites += len(fn.Blocks)
	types_ := c.enumConsts("pkg/protocol", "ReturnRoutabilityCheckMessageType")
	if len(types_) < 3 {
		r.Unk(rule, short(fn), c.pos(fn.Pos()), "message type constants not found")
		return
	}
	var copies []ssa.Instruction
	for _, cp := range findCalls(fn, nameIs("builtin:copy")) {
		copies = append(copies, cp)
	}
	isCopy := map[ssa.Instruction]bool{}
	for _, x := range copies {
		isCopy[x] = true
	}
	for _, name := range sortedKeys(types_) {
		tv := types_[name]
		w := &Walk{Fn: fn, Assume: func(v ssa.Value) (Val, bool) {
			if _, f, _, ok := fieldLoad(v); ok && f == "MessageType" {
				return vInt(tv), true
			}
			if cv, ok := v.(*ssa.Convert); ok && strings.HasSuffix(namedOrType(cv.Type()), "ReturnRoutabilityCheckMessageType") {
				return vInt(tv), true
			}
			return unknown, false
		}}
		w.Visit = func(in ssa.Instruction, _ Env) bool { return !isCopy[in] }
		w.FromEntry()
		leak := ""
		for _, ri := range possibleSuccessReturns(fn) {
			if w.Reached[ri] {
				leak = c.ipos(ri)
			}
		}
		r.Check(leak == "", rule, short(fn)+":"+name, c.pos(fn.Pos()), "decoded with its cookie", "a message of the known type "+name+" can be decoded successfully ("+leak+") without its cookie being read: decode(encode(v)) differs from v and the re-encoded record differs from the input")
	}
}

// ruleRecordEpochFromOpeningGeneration (C20): the plaintext record a DTLS 1.3 ciphertext record is
// turned into (whose number is what gets acknowledged) carries the epoch of the key generation that
// opened it, not the connection's current read epoch: after a key update a late record of the
// previous epoch would otherwise be acknowledged under the new epoch, where the same sequence
// number may belong to a different record of the sender.
func ruleRecordEpochFromOpeningGeneration(c *Ctx, r *Report) {
	const rule = "record-epoch-from-opening-generation"
	n := 0
	for _, s := range c.CallsTo(nameIs("dtls.marshalInnerPlaintextRecord")) {
		call, ok := s.Call.(*ssa.Call)
		if !ok || len(call.Call.Args) < 1 {
			continue
		}
		n++
		r.Sites++
		ls := c.OriginsIP(call.Call.Args[0], 0)
		var ds []string
		good := len(ls) > 0
		for _, l := range ls {
			ds = append(ds, c.describe(l))
			ex, isEx := l.(*ssa.Extract)
			if !isEx {
				good = false
				continue
			}
			cl, isCall := ex.Tuple.(*ssa.Call)
			if !isCall || !strings.HasSuffix(calleeName(&cl.Call), "dtls.Conn).openCiphertextRecord") {
				good = false
			}
		}
		r.Check(good, rule, short(s.Fn), c.ipos(call), "the epoch of the reconstructed record is the one openCiphertextRecord reported", "the reconstructed plaintext record takes its epoch from ["+strings.Join(dedup(ds), ", ")+"], not from the generation that opened the ciphertext: a late record of an earlier epoch is acknowledged under the current epoch")
	}
	r.Floor(rule, n, 1)
}

// ruleAppDataEpochAtEmission (C20): the DTLS 1.3 state machine stamps every application record
// with the sending epoch at the moment it emits it, unconditionally: the store into the record
// header's epoch lies on every way through the loop over the packets. A packet built by Write
// before a key update completed would otherwise go out, after the update, under the superseded
// generation: the sending epoch decreases on the wire.
func ruleAppDataEpochAtEmission(c *Ctx, r *Report) {
	const rule = "app-data-epoch-at-emission"
	fn := c.need(r, rule, "(*"+pkgHS+".postHandshake).writeApplicationData")
	if fn == nil {
		return
	}
	r.Sites += len(fn.Blocks)
	var stores []*ssa.Store
	for _, b := range fn.Blocks {
		for _, in := range b.Instrs {
			st, ok := in.(*ssa.Store)
			if !ok {
				continue
			}
			if o, f, _, okF := fieldOfAddr(st.Addr); okF && f == "Epoch" && strings.HasSuffix(o, "recordlayer.Header") {
				if allLeaves(c.Origins(st.Val, 0), func(l ssa.Value) bool { return isCallResult(l, nameHasSuffix(").LocalEpoch")) }) {
					stores = append(stores, st)
				}
			}
		}
	}
	if len(stores) == 0 {
		r.Bad(rule, short(fn), c.pos(fn.Pos()), "application records are not stamped with the sending epoch when they are emitted")
		return
	}
	good := false
	for _, st := range stores {
		for _, l := range naturalLoops(fn) {
			if !l.blocks[st.Block()] {
				continue
			}
			all := true
			for _, latch := range l.latches {
				if !(st.Block() == latch || st.Block().Dominates(latch)) {
					all = false
				}
			}
			if all && len(l.latches) > 0 {
				good = true
			}
		}
	}
	r.Check(good, rule, short(fn), c.ipos(stores[0]), "every packet is stamped with LocalEpoch() on every way through the loop", "an application packet can pass the emission loop without being stamped with the current sending epoch (the store is conditional): a packet built before a key update completed goes out under the superseded epoch afterwards")
}

// ruleWrappedHandshakeInnerType (C12, C15): every fragment of a handshake message that is wrapped
// into a connection-ID record declares the inner content type handshake: the RealType of the inner
// plaintext built by the handshake-packet path is the constant, not a field of the packet's record
// header (which this very path overwrites with the tls12_cid header after the first fragment).
func ruleWrappedHandshakeInnerType(c *Ctx, r *Report) {
	const rule = "wrapped-handshake-inner-type"
	fn := c.need(r, rule, "(*dtls.Conn).processHandshakePacket")
	if fn == nil {
		return
	}
	r.Sites += len(fn.Blocks)
	ct := c.enumConsts("pkg/protocol", "ContentType")
	n := 0
	for _, u := range c.unitFuncs(fn) {
		for _, st := range c.StoresTo("pkg/protocol/recordlayer.InnerPlaintext", "RealType") {
			if st.Fn != u {
				continue
			}
			n++
			k, isK := constInt(st.Val)
			r.Check(isK && k == ct["ContentTypeHandshake"], rule, short(u), c.ipos(st.Instr), "inner type = handshake (constant)", "the inner content type of a connection-ID-wrapped handshake fragment is taken from "+shapeOf(st.Val, 0)+" instead of being the constant handshake type: the record header it is read from is overwritten with the tls12_cid header after the first fragment, so later fragments are not recognised as handshake data by the peer")
		}
	}
	r.Floor(rule, n, 1)
}

// ruleSessionIDWithSecret (C14): on the client the offered session ID and the master secret it
// resumes with are one pair out of the session store: the only non-empty value a client-side
// function stores into state.SessionID is the ID that the store returned together with the secret
// (or, after the ServerHello of a full handshake, the ID the server assigned). An ID from anywhere
// else - the ClientHello after a user hook, say - makes the client take an echoing ServerHello for
// a resumption although it holds no secret for it.
func ruleSessionIDWithSecret(c *Ctx, r *Report) {
	const rule = "session-id-with-secret"
	n := 0
	for _, st := range c.StoresTo(tCom, "SessionID") {
		fn := st.Fn
		if fn.Pkg == nil || !strings.HasSuffix(fn.Pkg.Pkg.Path(), "internal/flight/flight12") {
			continue
		}
		n++
		r.Sites++
		key := fmt.Sprintf("%s:SessionID", short(fn))
		v := st.Val
		// empty / nil / fresh random buffer
		if isNilConst(v) {
			r.OK(rule, key, c.ipos(st.Instr), "cleared")
			continue
		}
		ok := false
		why := ""
		for _, l := range c.OriginsThrough(v, 0) {
			switch x := l.(type) {
			case *ssa.MakeSlice, *ssa.Alloc, *ssa.Slice:
				ok, why = true, "fresh buffer (server-assigned ID) or empty"
			case *ssa.Extract:
				if call, isCall := x.Tuple.(*ssa.Call); isCall && x.Index == 0 {
					// result 0 of the session lookup, whose result 1 is the secret
					if _, f, _, okF := fieldLoad(call.Call.Value); okF && f == "GetSession" {
						ok, why = true, "the ID the session store returned with the secret"
					}
				}
			case *ssa.Parameter:
				// the offered ID handed to the resumption helper, used with the store's secret
				if len(findDynCallsOfField(fn, "GetSession")) > 0 {
					ok, why = true, "the offered ID, looked up in the session store in this function"
				} else if sites, complete := c.staticCallers(fn); complete && len(sites) > 0 && x.Parent() == fn {
					// the helper that installs a looked-up session: every caller did the lookup
					// and hands over the ID it looked up (its own parameter or the store's answer)
					all := true
					for _, s := range sites {
						call, isCall := s.Call.(*ssa.Call)
						idx := paramIndex(x)
						gets := findDynCallsOfField(s.Fn, "GetSession")
						if !isCall || idx < 0 || idx >= len(call.Call.Args) || len(gets) == 0 {
							all = false
							continue
						}
						arg := unspill(call.Call.Args[idx])
						_, isParam := arg.(*ssa.Parameter)
						fromGet := false
						if ex, isEx := arg.(*ssa.Extract); isEx && ex.Index == 0 {
							for _, g := range gets {
								if ex.Tuple == ssa.Value(g) {
									fromGet = true
								}
							}
						}
						dominated := false
						for _, g := range gets {
							if instrDominates(g, call) {
								dominated = true
							}
						}
						if !(isParam || fromGet) || !dominated {
							all = false
						}
					}
					if all {
						ok, why = true, "the offered ID, looked up in the session store by every caller of this helper"
					}
				}
			case *ssa.Call:
				if calleeName(&x.Call) == "bytes.Clone" || calleeName(&x.Call) == "slices.Clone" {
					if isFieldLoad(x.Call.Args[0], "pkg/protocol/handshake.MessageServerHello", "SessionID") {
						ok, why = true, "the ID assigned by the server's ServerHello"
					}
				}
			case *ssa.UnOp:
				if isFieldLoad(x, "pkg/protocol/handshake.MessageServerHello", "SessionID") {
					ok, why = true, "the ID assigned by the server's ServerHello"
				}
			}
		}
		r.Check(ok, rule, key, c.ipos(st.Instr), why, "state.SessionID is set from "+shapeOf(v, 0)+", which is neither the ID the session store returned together with a master secret nor the ID of the peer's ServerHello: the endpoint can take an echoed ID for a resumption of a session it holds no secret for")
	}
	r.Floor(rule, n, 4)
}

func findDynCallsOfField(fn *ssa.Function, field string) []*ssa.Call {
	var out []*ssa.Call
	for _, b := range fn.Blocks {
		for _, in := range b.Instrs {
			if call, ok := in.(*ssa.Call); ok && call.Call.StaticCallee() == nil && !call.Call.IsInvoke() {
				if _, f, _, okF := fieldLoad(call.Call.Value); okF && f == field {
					out = append(out, call)
				}
			}
		}
	}
	return out
}

// ruleResumePreconditionsByRole (C19): resuming applies to the options the preconditions of the
// role recorded in the serialised state. A refusal that depends on what the options contain (PSK,
// identity hint, certificates ...) and is decided in the resume path itself must also depend on
// that role: a precondition of one role applied blindly makes the other role's valid state
// impossible to resume (a PSK server without identity hint, for instance).
func ruleResumePreconditionsByRole(c *Ctx, r *Report) {
	const rule = "resume-preconditions-by-role"
	fn := c.need(r, rule, "dtls.resumeWithConfig")
	if fn == nil {
		return
	}
	r.Sites += len(fn.Blocks)
	n := 0
	bad := ""
	for _, b := range fn.Blocks {
		ret, ok := b.Instrs[len(b.Instrs)-1].(*ssa.Return)
		if !ok || len(ret.Results) == 0 {
			continue
		}
		ev := unspill(ret.Results[len(ret.Results)-1])
		u, isLoad := ev.(*ssa.UnOp)
		if !isLoad {
			continue
		}
		if _, isG := u.X.(*ssa.Global); !isG {
			continue
		}
		n++
		// the branch conditions this refusal depends on
		usesOptions, usesRole := false, false
		for _, blk := range fn.Blocks {
			iff, isIf := blk.Instrs[len(blk.Instrs)-1].(*ssa.If)
			if !isIf || !blk.Dominates(b) || blk == b {
				continue
			}
			var walkCond func(v ssa.Value, d int)
			walkCond = func(v ssa.Value, d int) {
				if d > 4 {
					return
				}
				switch x := v.(type) {
				case *ssa.BinOp:
					walkCond(x.X, d+1)
					walkCond(x.Y, d+1)
				case *ssa.UnOp:
					if o, f, _, okF := fieldLoad(x); okF {
						if strings.HasSuffix(o, "dtlsConfig") || strings.HasSuffix(o, "dtls.Config") {
							usesOptions = true
						}
						if f == "IsClient" || f == "isClient" {
							usesRole = true
						}
					} else {
						walkCond(x.X, d+1)
					}
				case *ssa.Phi:
					for _, e := range x.Edges {
						walkCond(e, d+1)
					}
				case *ssa.Call:
					for _, a := range x.Call.Args {
						walkCond(a, d+1)
					}
				}
			}
			walkCond(iff.Cond, 0)
		}
		if usesOptions && !usesRole {
			bad = c.ipos(ret)
		}
	}
	r.Check(bad == "", rule, short(fn), c.pos(fn.Pos()), fmt.Sprintf("%d direct refusal(s), none depends on the options without depending on the role", n), "the resume path refuses ("+bad+") depending on what the options contain without looking at the role recorded in the state: a precondition of one role keeps a valid state of the other role from being resumed")
}

// ruleMarshalReturnsOwnBuffer (C19): the bytes MarshalBinary returns are the caller's: they come
// from a buffer local to the call. A buffer taken from a pool (and given back) is overwritten by
// the next export while the first blob is still in use.
func ruleMarshalReturnsOwnBuffer(c *Ctx, r *Report) {
	const rule = "marshal-returns-own-buffer"
	fn := c.need(r, rule, "(*dtls.State).MarshalBinary")
	if fn == nil {
		return
	}
	r.Sites += len(fn.Blocks)
	pooled := len(findCalls(fn, func(n string) bool { return strings.HasPrefix(n, "(*sync.Pool).") })) > 0
	good := true
	why := ""
	for _, ri := range possibleSuccessReturns(fn) {
		ret := ri.(*ssa.Return)
		v := unspill(ret.Results[0])
		for _, l := range c.Origins(v, 0) {
			call, ok := l.(*ssa.Call)
			if !ok {
				continue
			}
			nm := calleeName(&call.Call)
			if nm == "bytes.Clone" || nm == "slices.Clone" || nm == "builtin:append" {
				continue
			}
			if nm == "(*bytes.Buffer).Bytes" {
				if _, isLocal := call.Call.Args[0].(*ssa.Alloc); !isLocal {
					good = false
					why = "the returned bytes are the contents of a buffer that is not local to the call (" + shapeOf(call.Call.Args[0], 0) + ")"
				}
			}
		}
	}
	if pooled && good {
		// a pool is used: the result must be a copy
		for _, ri := range possibleSuccessReturns(fn) {
			v := unspill(ri.(*ssa.Return).Results[0])
			if !anyLeaf(c.Origins(v, 0), func(l ssa.Value) bool {
				cl, ok := l.(*ssa.Call)
				return ok && (calleeName(&cl.Call) == "bytes.Clone" || calleeName(&cl.Call) == "slices.Clone")
			}) {
				good = false
				why = "a pooled buffer is used and the result is not a copy"
			}
		}
	}
	r.Check(good, rule, short(fn), c.pos(fn.Pos()), "the serialised state is returned from a buffer of its own", why+": the next MarshalBinary overwrites a blob that is still in use, which is then rejected as corrupt or resumes with another session's keys")
}

// ruleVerifyCodecCoversOffered (C18, C02): every (hash, signature) pair the library offers to sign
// with — the literal list signaturehash.Algorithms returns, which includes the 16-bit RSA-PSS
// schemes a DTLS 1.3 endpoint with an RSA key selects — can be encoded by the CertificateVerify
// message: with the two fields bound to the pair, a successful exit of Marshal is reachable. The
// decoder accepts these schemes; an encoder that refuses them breaks decode(encode(v)) for a value
// the handshake itself produces, and the 1.3 handshake with an RSA certificate cannot complete.
func ruleVerifyCodecCoversOffered(c *Ctx, r *Report) {
	const rule = "verify-codec-covers-offered"
	list := c.need(r, rule, "pkg/crypto/signaturehash.Algorithms")
	enc := c.need(r, rule, "(*pkg/protocol/handshake.MessageCertificateVerify).Marshal")
	if list == nil || enc == nil {
		return
	}
	type pair struct {
		f    [2]int64
		have [2]bool
		from string
	}
	// the literal lists: every parameterless function of the package that returns []Algorithm
	lists := []*ssa.Function{list}
	for _, fn := range c.Fns {
		if fn != list && fn.Pkg == list.Pkg && fn.Parent() == nil && len(fn.Params) == 0 && len(fn.Blocks) > 0 &&
			fn.Signature.Results().Len() == 1 && types.Identical(fn.Signature.Results().At(0).Type(), list.Signature.Results().At(0).Type()) {
			lists = append(lists, fn)
		}
	}
	sort.Slice(lists, func(a, b int) bool { return lists[a].Name() < lists[b].Name() })
	byKey := map[[2]int64]*pair{}
	for _, lf := range lists {
		cells := map[ssa.Value]*pair{}
		var order []ssa.Value
		for _, b := range lf.Blocks {
			for _, in := range b.Instrs {
				st, ok := in.(*ssa.Store)
				if !ok {
					continue
				}
				fa, ok := st.Addr.(*ssa.FieldAddr)
				if !ok || fa.Field > 1 {
					continue
				}
				k, isV := constInt(st.Val)
				if !isV {
					continue
				}
				p := cells[fa.X]
				if p == nil {
					p = &pair{from: short(lf)}
					cells[fa.X] = p
					order = append(order, fa.X)
				}
				p.f[fa.Field], p.have[fa.Field] = k, true
			}
		}
		for _, cell := range order {
			p := cells[cell]
			if byKey[p.f] == nil {
				byKey[p.f] = p
			}
		}
	}
	var keys [][2]int64
	for k := range byKey {
		keys = append(keys, k)
	}
	sort.Slice(keys, func(a, b int) bool {
		if keys[a][1] != keys[b][1] {
			return keys[a][1] < keys[b][1]
		}
		return keys[a][0] < keys[b][0]
	})
	st, _ := derefType(enc.Params[0].Type()).Underlying().(*types.Struct)
	if st == nil || st.NumFields() < 2 {
		r.Unk(rule, short(enc), c.pos(enc.Pos()), "receiver is not a struct")
		return
	}
	// the literal's field 0 is the hash and field 1 the signature; the message names them
	hashF, sigF := "", ""
	for i := 0; i < st.NumFields(); i++ {
		switch {
		case strings.HasSuffix(namedOrType(st.Field(i).Type()), "crypto/hash.Algorithm"):
			hashF = st.Field(i).Name()
		case strings.HasSuffix(namedOrType(st.Field(i).Type()), "crypto/signature.Algorithm"):
			sigF = st.Field(i).Name()
		}
	}
	if hashF == "" || sigF == "" {
		r.Unk(rule, short(enc), c.pos(enc.Pos()), "hash/signature fields of the message not found")
		return
	}
	n := 0
	for _, key := range keys {
		p := byKey[key]
		n++
		r.Sites++
		w := &Walk{Fn: enc, Follow: func(callee *ssa.Function) bool { return inModule(callee) }, Assume: func(v ssa.Value) (Val, bool) {
			if _, f, base, ok := fieldLoad(v); ok && rootIsParam(base, enc.Params[0]) {
				switch f {
				case hashF:
					return vInt(p.f[0]), true
				case sigF:
					return vInt(p.f[1]), true
				}
			}
			return unknown, false
		}}
		w.FromEntry()
		success := false
		for _, ro := range w.Returns {
			last := len(ro.Raw) - 1
			if last < 0 {
				continue
			}
			if isNilConst(unspill(ro.Raw[last])) || (ro.Vals[last].Kind == 2 && ro.Vals[last].B) {
				success = true
			}
		}
		name := fmt.Sprintf("(hash %d, signature 0x%04x)", p.f[0], p.f[1])
		r.Check(success, rule, short(enc)+":"+fmt.Sprintf("hash%d/sig%d", p.f[0], p.f[1]), c.pos(enc.Pos()), "an offered scheme the encoder can write", name+" is offered by "+p.from+" and accepted by the decoder, but no successful exit of "+short(enc)+" is reachable for it: a CertificateVerify signed with this scheme cannot be sent (DTLS 1.3 with an RSA key selects exactly these) and decode(encode(v)) fails for it")
	}
	r.Floor(rule, n, 9)
}

// rootIsParam reports whether base is (a load chain from) the given parameter.
func rootIsParam(base ssa.Value, p *ssa.Parameter) bool {
	for i := 0; i < 6 && base != nil; i++ {
		switch x := base.(type) {
		case *ssa.Parameter:
			return x == p
		case *ssa.UnOp:
			base = x.X
		case *ssa.FieldAddr:
			base = x.X
		case *ssa.Field:
			base = x.X
		default:
			return false
		}
	}
	return false
}

// ruleResponseExtensionsAllChecked (C11, C01): the check "a response carries only extension types
// the ClientHello offered" is made for every element of the response's extension list. In the
// function that asks the offer snapshot about a non-constant type inside a loop,
//   - an element that was not offered and that the exception callback does not allow (or with no
//     callback) ends the function with an error: with Offered false and the callback false neither
//     the next iteration nor a successful exit is reachable from the loop body;
//   - no successful exit is reachable from inside the loop body at all without going back through
//     the loop header: an allowed exception moves on to the next element, it does not end the scan
//     (every later extension would go unchecked).
func ruleResponseExtensionsAllChecked(c *Ctx, r *Report) {
	const rule = "response-extensions-all-checked"
	n := 0
	for _, s := range c.CallsTo(func(name string) bool { return strings.HasSuffix(name, "ClientHelloSnapshot).Offered") }) {
		call, ok := s.Call.(*ssa.Call)
		if !ok || len(call.Call.Args) < 2 {
			continue
		}
		if _, isK := constInt(call.Call.Args[1]); isK {
			continue
		}
		fn := s.Fn
		var loop *natLoop
		for _, l := range naturalLoops(fn) {
			if l.blocks[call.Block()] && (loop == nil || len(l.blocks) < len(loop.blocks)) {
				loop = l
			}
		}
		if loop == nil {
			continue
		}
		n++
		r.Sites += len(fn.Blocks)
		if fn.Signature.Results().Len() == 0 || !isErrorType(fn.Signature.Results().At(fn.Signature.Results().Len()-1).Type()) {
			r.Unk(rule, short(fn), c.ipos(call), "the per-element check is not in a function that returns an error: rule cannot be decided")
			continue
		}
		success := map[ssa.Instruction]bool{}
		for _, ri := range possibleSuccessReturns(fn) {
			success[ri] = true
		}
		var entries []*ssa.BasicBlock
		for _, su := range loop.header.Succs {
			if loop.blocks[su] {
				entries = append(entries, su)
			}
		}
		isFuncParamCall := func(v ssa.Value) bool {
			cl, ok := v.(*ssa.Call)
			if !ok || cl.Call.IsInvoke() {
				return false
			}
			_, isP := cl.Call.Value.(*ssa.Parameter)
			return isP
		}
		walkBody := func(assume func(ssa.Value) (Val, bool)) (back bool, leak string) {
			for _, e := range entries {
				w := &Walk{Fn: fn, Assume: assume}
				w.Visit = func(in ssa.Instruction, _ Env) bool {
					if in.Block() == loop.header {
						back = true
						return false
					}
					return true
				}
				w.FromEdge(loop.header, e)
				for _, ro := range w.Returns {
					last := len(ro.Vals) - 1
					if success[ro.Ret] && !(last >= 0 && ro.Vals[last].Kind == 2 && !ro.Vals[last].B) {
						leak = c.ipos(ro.Ret)
					}
				}
			}
			return
		}
		// (1) unoffered and not allowed: rejected
		back, leak := walkBody(func(v ssa.Value) (Val, bool) {
			if v == ssa.Value(call) || isFuncParamCall(v) {
				return vBool(false), true
			}
			return unknown, false
		})
		r.Check(!back && leak == "", rule, short(fn)+":unoffered-rejected", c.ipos(call), "an element neither offered nor excepted ends the function with an error", "with the offer snapshot answering false and the exception callback false the loop body can continue with the next element or return success ("+leak+"): a response extension the client never offered is accepted")
		// (2) nothing ends the scan with success
		_, leak = walkBody(func(v ssa.Value) (Val, bool) { return unknown, false })
		r.Check(leak == "", rule, short(fn)+":scan-complete", c.ipos(call), "success is returned only after the loop is exhausted", "a successful exit ("+leak+") is reachable from inside the loop over the response extensions: the first accepted element ends the scan and every later extension goes unchecked, so a response can carry an extension the client did not offer")
	}
	r.Floor(rule, n, 1)
}

// ruleChainSchemesFallBack (C11): the list of signature schemes a certificate chain is held to is
// the certificate-specific list when one is configured and the handshake list otherwise (RFC 8446
// 4.2.3: without signature_algorithms_cert, signature_algorithms also governs the chain). At every
// call of the chain verifiers, on the paths where the certificate-specific list is empty, the list
// handed over is cfg.LocalSignatureSchemes; where the path does not resolve the argument (a
// helper), the handshake list is at least among the argument's origins.
func ruleChainSchemesFallBack(c *Ctx, r *Report) {
	const rule = "chain-schemes-fall-back"
	n := 0
	for _, s := range c.CallsTo(nameIs("internal/handshakecrypto.VerifyClientCert", "internal/handshakecrypto.VerifyServerCert")) {
		call, ok := s.Call.(*ssa.Call)
		if !ok || !inModule(s.Fn) || strings.HasSuffix(s.Fn.Pkg.Pkg.Path(), "internal/handshakecrypto") {
			continue
		}
		fn := s.Fn
		for fn.Parent() != nil {
			fn = fn.Parent()
		}
		if fn != s.Fn {
			continue
		}
		arg := call.Call.Args[len(call.Call.Args)-1]
		n++
		r.Sites += len(fn.Blocks)
		seen, good, bad := 0, 0, ""
		w := &Walk{Fn: fn, Follow: followSamePkg(fn), Assume: func(v ssa.Value) (Val, bool) {
			if cl, ok := v.(*ssa.Call); ok && calleeName(&cl.Call) == "builtin:len" && len(cl.Call.Args) == 1 {
				if _, f, _, ok := fieldLoad(cl.Call.Args[0]); ok && f == "LocalCertSignatureSchemes" {
					return vInt(0), true
				}
			}
			return unknown, false
		}}
		w.VisitRaw = func(in ssa.Instruction, _ Env, raw map[*ssa.Phi]ssa.Value) bool {
			if in != ssa.Instruction(call) {
				return true
			}
			seen++
			v := resolvePhis(arg, raw)
			if _, f, _, ok := fieldLoad(v); ok {
				if f == "LocalSignatureSchemes" {
					good++
				} else {
					bad = f
				}
				return true
			}
			for _, l := range c.OriginsThrough(v, 0) {
				if _, f, _, ok := fieldLoad(l); ok && f == "LocalSignatureSchemes" {
					good++
					return true
				}
			}
			bad = c.describe(v)
			return true
		}
		w.FromEntry()
		key := short(fn) + ":" + strings.TrimPrefix(calleeName(&call.Call), "internal/handshakecrypto.")
		if seen == 0 {
			r.Unk(rule, key, c.ipos(call), "the chain verification is not reached with the certificate-specific list empty: rule cannot be decided")
			continue
		}
		r.Check(bad == "" && good > 0, rule, key, c.ipos(call), "with no certificate-specific list the chain is held to cfg.LocalSignatureSchemes", "with cfg.LocalCertSignatureSchemes empty the chain verifier receives "+bad+" instead of cfg.LocalSignatureSchemes: an endpoint that restricts its signature schemes accepts a certificate chain signed with a scheme outside its policy")
	}
	r.Floor(rule, n, 4)
}

// ruleRetryExtensionPreserved (C13, C04): an extension the cookie exchange pins (connection_id,
// use_srtp) is present in both ClientHellos or in neither, with the same bytes. In every function
// that looks the same extension up in two different snapshot parameters, with the two presence
// flags and the byte comparison bound to each combination, success is reachable only when the
// flags agree and the bytes are equal; and at every caller a failure of that function leaves no
// successful exit. The first ClientHello being silent about the extension is no licence for the
// second to add it: that hello is the one the server negotiates from.
func ruleRetryExtensionPreserved(c *Ctx, r *Report) {
	const rule = "retry-extension-preserved"
	byFn := map[*ssa.Function][]*ssa.Call{}
	var order []*ssa.Function
	for _, s := range c.CallsTo(func(name string) bool { return strings.HasSuffix(name, "ClientHelloSnapshot).Extension") }) {
		call, ok := s.Call.(*ssa.Call)
		if !ok || len(call.Call.Args) < 2 || !inModule(s.Fn) {
			continue
		}
		if _, isP := call.Call.Args[0].(*ssa.Parameter); !isP {
			continue
		}
		if byFn[s.Fn] == nil {
			order = append(order, s.Fn)
		}
		byFn[s.Fn] = append(byFn[s.Fn], call)
	}
	sort.Slice(order, func(a, b int) bool { return short(order[a]) < short(order[b]) })
	n := 0
	type boolCaller struct {
		fn *ssa.Function
		cc *ssa.Call
	}
	var boolCallers []boolCaller
	// callersFail: a failure of fn leaves its callers no successful exit
	callersFail := func(fn *ssa.Function) {
		for _, s := range c.CallsToName(short(fn)) {
			cc, ok := s.Call.(*ssa.Call)
			if !ok || !inModule(s.Fn) {
				continue
			}
			caller := s.Fn
			cs := map[ssa.Instruction]bool{}
			for _, ri := range possibleSuccessReturns(caller) {
				cs[ri] = true
			}
			w := &Walk{Fn: caller, Assume: func(v ssa.Value) (Val, bool) {
				if v == ssa.Value(cc) {
					return vNil(false), true
				}
				return unknown, false
			}}
			w.After(cc)
			leak := ""
			for _, ro := range w.Returns {
				last := len(ro.Vals) - 1
				if cs[ro.Ret] && !(last >= 0 && ro.Vals[last].Kind == 2 && !ro.Vals[last].B) {
					leak = c.ipos(ro.Ret)
				}
			}
			r.Check(leak == "", rule, short(caller)+"->"+fn.Name(), c.ipos(cc), "a changed pinned extension fails the caller", "after "+fn.Name()+" reported a changed extension "+short(caller)+" can still succeed ("+leak+")")
		}
	}
	for _, fn := range order {
		calls := byFn[fn]
		if len(calls) != 2 || calls[0].Call.Args[0] == calls[1].Call.Args[0] {
			continue
		}
		res := fn.Signature.Results()
		if res.Len() == 0 {
			continue
		}
		// the comparison may live in a helper that answers "same?" as a bool: then the helper must
		// answer false for every differing combination, and each caller that reports an error must
		// fail when it answers false
		isBool := false
		if b, ok := res.At(res.Len() - 1).Type().Underlying().(*types.Basic); ok && b.Kind() == types.Bool && res.Len() == 1 {
			isBool = true
		} else if !isErrorType(res.At(res.Len() - 1).Type()) {
			continue
		}
		if !isBool {
			n++
		}
		r.Sites += len(fn.Blocks)
		presentOf := func(v ssa.Value) int {
			ex, ok := v.(*ssa.Extract)
			if !ok || ex.Index != 1 {
				return -1
			}
			for i, cl := range calls {
				if ex.Tuple == ssa.Value(cl) {
					return i
				}
			}
			return -1
		}
		success := map[ssa.Instruction]bool{}
		for _, ri := range possibleSuccessReturns(fn) {
			success[ri] = true
		}
		var wrong []string
		for _, combo := range [][3]bool{{true, false, true}, {true, false, false}, {false, true, true}, {false, true, false}, {true, true, false}} {
			eqSeen := false
			w := &Walk{Fn: fn, Follow: followSamePkg(fn), Assume: func(v ssa.Value) (Val, bool) {
				if i := presentOf(v); i >= 0 {
					return vBool(combo[i]), true
				}
				if cl, ok := v.(*ssa.Call); ok {
					switch calleeName(&cl.Call) {
					case "bytes.Equal", "crypto/hmac.Equal":
						eqSeen = true
						return vBool(combo[2]), true
					case "crypto/subtle.ConstantTimeCompare":
						eqSeen = true
						if combo[2] {
							return vInt(1), true
						}
						return vInt(0), true
					}
				}
				return unknown, false
			}}
			w.FromEntry()
			_ = eqSeen
			for _, ro := range w.Returns {
				last := len(ro.Vals) - 1
				if isBool {
					if !(last >= 0 && ro.Vals[last].Kind == 1 && !ro.Vals[last].B) {
						wrong = append(wrong, fmt.Sprintf("first present=%v, second present=%v, bytes equal=%v answered as unchanged at %s", combo[0], combo[1], combo[2], c.ipos(ro.Ret)))
						break
					}
					continue
				}
				if success[ro.Ret] && !(last >= 0 && ro.Vals[last].Kind == 2 && !ro.Vals[last].B) {
					wrong = append(wrong, fmt.Sprintf("first present=%v, second present=%v, bytes equal=%v accepted at %s", combo[0], combo[1], combo[2], c.ipos(ro.Ret)))
					break
				}
			}
		}
		r.Check(len(wrong) == 0, rule, short(fn), c.pos(fn.Pos()), "accepted only when present in both hellos or in neither, with equal bytes", "the pinned extension may differ between the two ClientHellos: "+strings.Join(wrong, "; ")+": the second ClientHello is not otherwise identical to the first, yet the server answers it with its ServerHello flight")
		// callers: a failure leaves no successful exit
		for _, s := range c.CallsToName(short(fn)) {
			if isBool {
				cc, ok := s.Call.(*ssa.Call)
				if !ok || !inModule(s.Fn) {
					continue
				}
				cres := s.Fn.Signature.Results()
				if cres.Len() == 0 || !isErrorType(cres.At(cres.Len()-1).Type()) {
					r.Unk(rule, short(s.Fn)+"->"+fn.Name(), c.ipos(cc), "the answer of "+fn.Name()+" is used by a function that reports no error")
					continue
				}
				n++
				boolCallers = append(boolCallers, boolCaller{s.Fn, cc})
				continue
			}
		}
		if !isBool {
			callersFail(fn)
		}
	}
	sort.Slice(boolCallers, func(a, b int) bool { return c.ipos(boolCallers[a].cc) < c.ipos(boolCallers[b].cc) })
	done := map[*ssa.Function]bool{}
	for _, bc := range boolCallers {
		caller, cc := bc.fn, bc.cc
		r.Sites += len(caller.Blocks)
		cs := map[ssa.Instruction]bool{}
		for _, ri := range possibleSuccessReturns(caller) {
			cs[ri] = true
		}
		w := &Walk{Fn: caller, Assume: func(v ssa.Value) (Val, bool) {
			if v == ssa.Value(cc) {
				return vBool(false), true
			}
			return unknown, false
		}}
		w.After(cc)
		leak := ""
		for _, ro := range w.Returns {
			last := len(ro.Vals) - 1
			if cs[ro.Ret] && !(last >= 0 && ro.Vals[last].Kind == 2 && !ro.Vals[last].B) {
				leak = c.ipos(ro.Ret)
			}
		}
		r.Check(leak == "", rule, short(caller), c.ipos(cc), "accepted only when the comparison helper answers unchanged", "the pinned extension may differ between the two ClientHellos: "+short(caller)+" can succeed ("+leak+") although the comparison answered that the extension changed: the second ClientHello is not otherwise identical to the first, yet the server answers it with its ServerHello flight")
		if !done[caller] {
			done[caller] = true
			callersFail(caller)
		}
	}
	r.Floor(rule, n, 2)
}

// asymmetricWork: the instruction calls straight into the standard library's public-key packages
// (key generation, key agreement, encapsulation, signing): the work a cookie exchange exists to
// withhold from an unverified address.
func asymmetricWork(in ssa.Instruction) string {
	ci, ok := in.(ssa.CallInstruction)
	if !ok {
		return ""
	}
	cc := ci.Common()
	path, name := "", ""
	if cc.IsInvoke() {
		if cc.Method.Pkg() != nil {
			path, name = cc.Method.Pkg().Path(), cc.Method.Name()
		}
	} else if f := cc.StaticCallee(); f != nil && f.Pkg != nil {
		path, name = f.Pkg.Pkg.Path(), f.Name()
	}
	switch path {
	case "crypto/ecdh", "crypto/mlkem", "crypto/ecdsa", "crypto/rsa", "crypto/ed25519", "crypto/elliptic":
		switch {
		case strings.HasPrefix(name, "Generate"), strings.HasPrefix(name, "Sign"), name == "ECDH", strings.HasPrefix(name, "Encapsulate"), strings.HasPrefix(name, "Decapsulate"), strings.HasPrefix(name, "Decrypt"), name == "ScalarMult", name == "ScalarBaseMult":
			return path + "." + name
		}
	case "crypto":
		if name == "Sign" || name == "Decrypt" {
			return "crypto." + name
		}
	}
	return ""
}

// ruleNoKeyWorkBeforeCookie (C13): with hello verification on, no public-key operation (key-pair
// generation, key agreement, encapsulation, signature) is reachable while the first ClientHello is
// parsed, nor in the second-hello parser before the cookie/body validation: a spoofed source
// address cannot make the server commit key-exchange work. Module callees are followed.
func ruleNoKeyWorkBeforeCookie(c *Ctx, r *Report) {
	const rule = "no-key-work-before-cookie"
	follow := func(callee *ssa.Function) bool { return inModule(callee) }
	verifyOn := assumeAll(atomAssume{mLoad(tCfg, "InsecureSkipHelloVerify"), vBool(false)})
	for _, v := range []struct{ pkg, validate string }{
		{pkgF12, "internal/negotiation.ValidateHelloVerifyRequestResponse"},
		{pkgF13, "internal/negotiation.ValidateClientHelloRetry"},
	} {
		f0 := c.need(r, rule, v.pkg+".flight0Parse")
		f2 := c.need(r, rule, v.pkg+".flight2Parse")
		if f0 == nil || f2 == nil {
			continue
		}
		r.Sites += len(f0.Blocks) + len(f2.Blocks)
		first := func(w *Walk) string {
			var at ssa.Instruction
			what := ""
			for in := range w.Reached {
				if k := asymmetricWork(in); k != "" && (at == nil || w.Seq[in] < w.Seq[at]) {
					at, what = in, k
				}
			}
			if at == nil {
				return ""
			}
			return what + " at " + c.ipos(at) + " (in " + short(at.Parent()) + ")"
		}
		w := &Walk{Fn: f0, Follow: follow, FollowDeferring: true, Assume: verifyOn}
		w.FromEntry()
		if w.overflow {
			r.Unk(rule, short(f0), c.pos(f0.Pos()), "exploration overflow")
		} else {
			k := first(w)
			r.Check(k == "", rule, short(f0), c.pos(f0.Pos()), "no public-key operation while the first ClientHello is parsed with hello verification on", "with hello verification on, parsing the first (unverified) ClientHello reaches "+k+": every spoofed ClientHello costs the server a public-key operation before any cookie came back")
		}
		nval := 0
		w2 := &Walk{Fn: f2, Follow: follow, FollowDeferring: true, Assume: verifyOn}
		w2.Visit = func(in ssa.Instruction, _ Env) bool {
			if cl, ok := in.(*ssa.Call); ok && calleeName(&cl.Call) == v.validate {
				nval++
				return false
			}
			return true
		}
		w2.FromEntry()
		if w2.overflow || nval == 0 {
			r.Unk(rule, short(f2), c.pos(f2.Pos()), "exploration overflow or the validation call was not reached")
		} else {
			k := first(w2)
			r.Check(k == "", rule, short(f2)+":before-validation", c.pos(f2.Pos()), "no public-key operation before the cookie and body of the second ClientHello are validated", "the second-hello parser reaches "+k+" before "+v.validate+" has accepted the cookie: a ClientHello with a wrong or missing cookie costs the server a public-key operation")
		}
	}
}

// ruleCookieRequestNeedsHello (C13): while the server waits for the second ClientHello, a wake-up
// that brought no ClientHello (the pull of the expected hello is not ready) sends nothing: the
// cookie-wait parser returns "keep waiting". The state machine is woken for every datagram that
// holds an epoch-0 handshake record, whatever its type; a parser that answers such a wake-up by
// re-evaluating the cached first ClientHello re-sends the cookie request for a record that is not a
// ClientHello, as often as the peer (or anyone spoofing it) likes. A re-send that depends on
// something besides the pull (for instance on the wake-up being a retransmission) is accepted.
func ruleCookieRequestNeedsHello(c *Ctx, r *Report) {
	const rule = "cookie-request-needs-hello"
	follow := func(callee *ssa.Function) bool { return inModule(callee) }
	for _, pkg := range []string{pkgF12, pkgF13} {
		f2 := c.need(r, rule, pkg+".flight2Parse")
		if f2 == nil {
			continue
		}
		r.Sites += len(f2.Blocks)
		isPullField := func(v ssa.Value) (string, bool) {
			_, f, base, ok := fieldLoad(v)
			if !ok {
				return "", false
			}
			for i := 0; i < 4; i++ {
				switch x := base.(type) {
				case *ssa.UnOp:
					base = x.X
					continue
				case *ssa.Alloc:
					for _, ref := range *x.Referrers() {
						if st, ok := ref.(*ssa.Store); ok && st.Addr == ssa.Value(x) {
							base = st.Val
						}
					}
					continue
				}
				break
			}
			cl, isCall := base.(*ssa.Call)
			if !isCall || !strings.Contains(calleeName(&cl.Call), "Pull") || cl.Parent() != f2 {
				return "", false
			}
			return f, true
		}
		seen := false
		w := &Walk{Fn: f2, Follow: follow, FollowDeferring: true, Assume: func(v ssa.Value) (Val, bool) {
			if f, ok := isPullField(v); ok {
				switch f {
				case "Ready":
					seen = true
					return vBool(false), true
				case "Err":
					return vNil(true), true
				}
			}
			return unknown, false
		}}
		w.FromEntry()
		if !seen || w.overflow {
			r.Unk(rule, short(f2), c.pos(f2.Pos()), "the parser does not test the readiness of its pull (or exploration overflow): rule cannot be decided")
			continue
		}
		bad := ""
		for _, ro := range w.Returns {
			if len(ro.Vals) == 0 || ro.Vals[0] == vInt(0) {
				continue
			}
			// guarded by a condition that is not a field of the pull?
			guarded := false
			for _, b := range f2.Blocks {
				iff, isIf := b.Instrs[len(b.Instrs)-1].(*ssa.If)
				if !isIf || !b.Dominates(ro.Ret.Block()) || b == ro.Ret.Block() {
					continue
				}
				var only func(v ssa.Value, d int) bool
				only = func(v ssa.Value, d int) bool {
					if _, ok := isPullField(v); ok {
						return true
					}
					switch x := v.(type) {
					case *ssa.Const:
						return true
					case *ssa.BinOp:
						return d < 4 && only(x.X, d+1) && only(x.Y, d+1)
					case *ssa.UnOp:
						return d < 4 && x.Op == token.NOT && only(x.X, d+1)
					}
					return false
				}
				onlyPull := only(iff.Cond, 0)
				if !onlyPull && (b.Succs[0].Dominates(ro.Ret.Block()) != b.Succs[1].Dominates(ro.Ret.Block())) {
					guarded = true
				}
			}
			if !guarded {
				bad = "flight " + ro.Vals[0].String() + " returned at " + c.ipos(ro.Ret)
			}
		}
		r.Check(bad == "", rule, short(f2)+":not-ready-keeps-silent", c.pos(f2.Pos()), "a wake-up without the expected ClientHello sends nothing", "with no ClientHello ready the cookie-wait parser still yields a flight ("+bad+"): every epoch-0 handshake record that is not a ClientHello - a stray fragment, a message with a later message_seq - makes the server send its cookie request again, with no cookie needed and without bound")
	}
}

// firstResultIsFlight: the function is a flight parser by type (its first result is a Flight;
// generators return packets).
func firstResultIsFlight(fn *ssa.Function) bool {
	res := fn.Signature.Results()
	return res.Len() > 0 && strings.HasSuffix(namedOrType(res.At(0).Type()), ".Flight")
}

// notInList builds the assumption "the tested value is not an element of the list": a
// slices.Contains / slices.Index over a list accepted by isList answers false / -1, and an
// equality of anything with an element of such a list is false. matched counts the uses.
func notInList(isList func(ssa.Value) bool, matched *int) func(ssa.Value) (Val, bool) {
	var elemSlice func(v ssa.Value, d int) ssa.Value
	elemSlice = func(v ssa.Value, d int) ssa.Value {
		if d > 4 {
			return nil
		}
		switch x := v.(type) {
		case *ssa.Field:
			return elemSlice(x.X, d+1)
		case *ssa.UnOp:
			if x.Op == token.MUL {
				return elemSlice(x.X, d+1)
			}
		case *ssa.FieldAddr:
			return elemSlice(x.X, d+1)
		case *ssa.IndexAddr:
			return x.X
		case *ssa.Index:
			return x.X
		case *ssa.Extract: // range over a string slice yields (index, value) through next
			return nil
		}
		return nil
	}
	return func(v ssa.Value) (Val, bool) {
		switch x := v.(type) {
		case *ssa.BinOp:
			if x.Op != token.EQL && x.Op != token.NEQ {
				return unknown, false
			}
			for _, side := range []ssa.Value{x.X, x.Y} {
				if sl := elemSlice(side, 0); sl != nil && isList(sl) {
					*matched++
					return vBool(x.Op == token.NEQ), true
				}
			}
		case *ssa.Call:
			nm := calleeName(&x.Call)
			if (strings.HasPrefix(nm, "slices.Contains") || strings.HasPrefix(nm, "slices.Index")) && len(x.Call.Args) > 0 && isList(x.Call.Args[0]) {
				*matched++
				if strings.HasPrefix(nm, "slices.Index") {
					return vInt(-1), true
				}
				return vBool(false), true
			}
			// a hand-written membership helper of the module: handed the list, it answers false
			// on every path once its own comparisons with the list's elements are false
			if callee := x.Call.StaticCallee(); callee != nil && inModule(callee) && len(callee.Blocks) > 0 && isBoolResult(callee) {
				for i, a := range x.Call.Args {
					if i >= len(callee.Params) || !isList(a) {
						continue
					}
					p := callee.Params[i]
					inner := 0
					w := &Walk{Fn: callee, Assume: notInList(func(sl ssa.Value) bool { return sl == ssa.Value(p) }, &inner)}
					w.FromEntry()
					allFalse := len(w.Returns) > 0 && !w.overflow
					for _, ro := range w.Returns {
						if !(len(ro.Vals) == 1 && ro.Vals[0].Kind == 1 && !ro.Vals[0].B) {
							allFalse = false
						}
					}
					if allFalse && inner > 0 {
						*matched++
						return vBool(false), true
					}
				}
			}
		}
		return unknown, false
	}
}

func isBoolResult(fn *ssa.Function) bool {
	res := fn.Signature.Results()
	if res.Len() != 1 {
		return false
	}
	b, ok := res.At(0).Type().Underlying().(*types.Basic)
	return ok && b.Kind() == types.Bool
}

// ruleALPNSelectionWasOffered (C11, C01): a flight parser that records the application protocol the
// peer selected (the Protocol of an ALPN selection taken from a received message) does so only if
// that protocol is one of cfg.SupportedProtocols, the list this endpoint offered: with every
// membership test over that list answering "not in it" the store is unreachable. Otherwise a
// non-conforming or tampered-with server makes the client complete on a protocol outside its own
// list.
func ruleALPNSelectionWasOffered(c *Ctx, r *Report) {
	const rule = "alpn-selection-was-offered"
	n := 0
	for _, st := range c.StoresTo(tCom, "NegotiatedProtocol") {
		fn := st.Fn
		for fn.Parent() != nil {
			fn = fn.Parent()
		}
		if !inModule(fn) || !c.onParserSide(fn, 0) {
			continue
		}
		fromPeer := false
		for _, l := range c.Origins(st.Val, 0) {
			if o, f, _, ok := fieldLoad(l); ok && f == "Protocol" && strings.HasSuffix(o, "extension.ALPNSelection") {
				fromPeer = true
			}
		}
		if !fromPeer {
			continue
		}
		n++
		r.Sites += len(fn.Blocks)
		matched := 0
		isList := func(s ssa.Value) bool {
			ls := c.OriginsIP(s, 0)
			return len(ls) > 0 && allLeaves(ls, func(l ssa.Value) bool {
				_, f, _, ok := fieldLoad(l)
				return ok && f == "SupportedProtocols"
			})
		}
		w := &Walk{Fn: fn, Follow: followSamePkg(fn), Assume: notInList(isList, &matched)}
		w.FromEntry()
		key := short(fn) + ":alpn-selection"
		if matched == 0 {
			r.Bad(rule, key, c.ipos(st.Instr), "the application protocol the peer selected is recorded without ever being compared with cfg.SupportedProtocols: a server that selects a protocol this client never offered is accepted and both sides complete on it")
			continue
		}
		r.Check(!w.Reached[st.Instr], rule, key, c.ipos(st.Instr), "unreachable when the selected protocol is not in cfg.SupportedProtocols", "the peer's selected application protocol is recorded although it matched no element of cfg.SupportedProtocols")
	}
	r.Floor(rule, n, 2)
}

// ruleServerCurveWasOffered (C11): the DTLS 1.2 client generates its key pair on the group the
// ServerKeyExchange names only if that group is one it offered (cfg.EllipticCurves, as filtered for
// the hello): with every membership test over that list answering "not in it", no key generation
// on the peer's NamedCurve is reachable in the function that handles the message. The first
// ClientHello and the ServerKeyExchange parameters are covered by the server's signature only as
// sent, so a rewritten supported_groups (or a non-conforming server) otherwise makes the client
// complete on a group outside its policy.
func ruleServerCurveWasOffered(c *Ctx, r *Report) {
	const rule = "server-curve-was-offered"
	n := 0
	byFn := map[*ssa.Function][]*ssa.Call{}
	var order []*ssa.Function
	for _, s := range c.CallsTo(nameIs("pkg/crypto/elliptic.GenerateKeypair", "pkg/crypto/elliptic.GenerateKeypairForPeer")) {
		call, ok := s.Call.(*ssa.Call)
		if !ok || !inModule(s.Fn) || len(call.Call.Args) == 0 {
			continue
		}
		// the function that reads the group out of the peer's message (the generation itself may
		// sit in a helper that is handed the group)
		roots := map[*ssa.Function]bool{}
		for _, l := range c.OriginsIP(call.Call.Args[0], 0) {
			if o, f, _, ok := fieldLoad(l); ok && f == "NamedCurve" && strings.HasSuffix(o, "handshake.MessageServerKeyExchange") {
				if in, isIn := l.(ssa.Instruction); isIn && in.Parent() != nil {
					roots[in.Parent()] = true
				}
			}
		}
		for root := range roots {
			if byFn[root] == nil {
				order = append(order, root)
			}
			byFn[root] = append(byFn[root], call)
		}
	}
	sort.Slice(order, func(a, b int) bool { return short(order[a]) < short(order[b]) })
	isCurveList := func(s ssa.Value) bool {
		hasField := func(v ssa.Value) bool {
			for _, l := range c.OriginsThrough(v, 0) {
				if _, f, _, ok := fieldLoad(l); ok && f == "EllipticCurves" {
					return true
				}
			}
			return false
		}
		if hasField(s) {
			return true
		}
		if cl, ok := s.(*ssa.Call); ok && cl.Call.StaticCallee() != nil && inModule(cl.Call.StaticCallee()) {
			for _, a := range cl.Call.Args {
				if hasField(a) {
					return true
				}
			}
		}
		return false
	}
	for _, fn := range order {
		n++
		r.Sites += len(fn.Blocks)
		matched := 0
		w := &Walk{Fn: fn, Follow: followSamePkg(fn), Assume: notInList(isCurveList, &matched)}
		w.FromEntry()
		at := ""
		for _, cl := range byFn[fn] {
			if w.Reached[cl] {
				at = c.ipos(cl)
			}
		}
		key := short(fn) + ":named-curve"
		if matched == 0 {
			r.Bad(rule, key, c.ipos(byFn[fn][0]), "the group named by the ServerKeyExchange is never compared with cfg.EllipticCurves before the client generates its key pair on it: the client completes on a group it did not offer")
			continue
		}
		r.Check(at == "", rule, key, c.ipos(byFn[fn][0]), "no key generation on the peer's group when it is not in cfg.EllipticCurves", "the client generates its key pair on the ServerKeyExchange's group ("+at+") although it matched no element of cfg.EllipticCurves")
	}
	r.Floor(rule, n, 1)
}

// ruleOwnSignatureWithinPolicy (C11): the scheme an endpoint signs its own handshake signature with
// is chosen from a list bounded by its own policy. At every call of the scheme selectors outside
// their package the candidate list is cfg.LocalSignatureSchemes itself, or the result of a helper
// that was handed cfg.LocalSignatureSchemes and in which, with every membership test over that
// parameter answering "not in it", no element is appended to the result. A client that picks from
// the server's CertificateRequest list alone signs with a scheme its own configuration excludes.
func ruleOwnSignatureWithinPolicy(c *Ctx, r *Report) {
	const rule = "own-signature-within-policy"
	isLocal := func(v ssa.Value) bool {
		ls := c.OriginsIP(v, 0)
		return len(ls) > 0 && allLeaves(ls, func(l ssa.Value) bool {
			_, f, _, ok := fieldLoad(l)
			return ok && f == "LocalSignatureSchemes"
		})
	}
	n := 0
	for _, s := range c.CallsTo(nameIs("pkg/crypto/signaturehash.SelectSignatureScheme", "pkg/crypto/signaturehash.SelectSignatureScheme13")) {
		call, ok := s.Call.(*ssa.Call)
		if !ok || !inModule(s.Fn) || strings.HasSuffix(s.Fn.Pkg.Pkg.Path(), "pkg/crypto/signaturehash") || len(call.Call.Args) == 0 {
			continue
		}
		n++
		r.Sites++
		key := short(s.Fn) + ":" + strings.TrimPrefix(calleeName(&call.Call), "pkg/crypto/signaturehash.")
		arg := call.Call.Args[0]
		if isLocal(arg) {
			r.OK(rule, key, c.ipos(call), "selected from cfg.LocalSignatureSchemes")
			continue
		}
		// a pure support test: the selected scheme is discarded, nothing is signed with it
		used := false
		for _, ref := range *call.Referrers() {
			if ex, ok := ref.(*ssa.Extract); ok && ex.Index == 0 && len(*ex.Referrers()) > 0 {
				used = true
			}
		}
		if !used {
			n--
			continue
		}
		good, why := false, "the candidate list does not derive from cfg.LocalSignatureSchemes"
		// built in place: a list accumulated by appends that are unreachable for an element outside
		// the local list
		if apps := accumulatorAppends(arg); len(apps) > 0 {
			matched := 0
			w := &Walk{Fn: s.Fn, Assume: notInList(isLocal, &matched)}
			w.FromEntry()
			appended := ""
			for _, a := range apps {
				if w.Reached[a] {
					appended = c.ipos(a)
				}
			}
			switch {
			case matched == 0:
				why = "the list is accumulated without comparing its elements with cfg.LocalSignatureSchemes"
			case appended != "":
				why = "a scheme is appended (" + appended + ") that matched no element of cfg.LocalSignatureSchemes"
			default:
				good = true
			}
		}
		// a helper that was handed the local list
		for _, l := range c.Origins(arg, 0) {
			hc, isCall := l.(*ssa.Call)
			if !isCall {
				continue
			}
			helper := hc.Call.StaticCallee()
			if helper == nil || !inModule(helper) || len(helper.Blocks) == 0 {
				continue
			}
			for i, a := range hc.Call.Args {
				if !isLocal(a) || i >= len(helper.Params) {
					continue
				}
				p := helper.Params[i]
				matched := 0
				w := &Walk{Fn: helper, Assume: notInList(func(sl ssa.Value) bool { return sl == ssa.Value(p) }, &matched)}
				w.FromEntry()
				appended := ""
				for in := range w.Reached {
					if cl, ok := in.(*ssa.Call); ok && calleeName(&cl.Call) == "builtin:append" {
						appended = c.ipos(in)
					}
				}
				switch {
				case matched == 0:
					why = short(helper) + " never compares an element with the local list it is handed"
				case appended != "":
					why = short(helper) + " appends a scheme (" + appended + ") that matched no element of the local list"
				default:
					good = true
				}
			}
		}
		r.Check(good, rule, key, c.ipos(call), "selected from the peer's list restricted to cfg.LocalSignatureSchemes", "the endpoint selects the scheme of its own handshake signature from a list its policy does not bound ("+why+"): it signs with a scheme its configuration excludes and the handshake completes")
	}
	r.Floor(rule, n, 4)
}

// accumulatorAppends: the append calls that build the slice v (through phis and the accumulated
// first argument).
func accumulatorAppends(v ssa.Value) []*ssa.Call {
	var out []*ssa.Call
	seen := map[ssa.Value]bool{}
	var visit func(x ssa.Value, d int)
	visit = func(x ssa.Value, d int) {
		if x == nil || seen[x] || d > 12 {
			return
		}
		seen[x] = true
		switch y := x.(type) {
		case *ssa.Phi:
			for _, e := range y.Edges {
				visit(e, d+1)
			}
		case *ssa.Call:
			if calleeName(&y.Call) == "builtin:append" && len(y.Call.Args) > 0 {
				out = append(out, y)
				visit(y.Call.Args[0], d+1)
			}
		case *ssa.UnOp:
			if u := unspill(y); u != ssa.Value(y) {
				visit(u, d+1)
			}
		}
	}
	visit(v, 0)
	return out
}

// ruleALPNNegotiatedWhereRecorded (C11): a flight package that records the peer's application
// protocol offer (a store of an ALPN offer's list into PeerSupportedProtocols) also selects from
// it: it calls the selection helper with that list, so that disjoint lists end the handshake with
// an alert. A version that records the offer and never answers it completes with no protocol on
// either side whatever the two lists are.
func ruleALPNNegotiatedWhereRecorded(c *Ctx, r *Report) {
	const rule = "alpn-negotiated-where-recorded"
	recorded := map[string]string{}
	for _, st := range c.StoresTo(tCom, "PeerSupportedProtocols") {
		if st.Fn.Pkg == nil || !inModule(st.Fn) {
			continue
		}
		fromOffer := false
		for _, l := range c.OriginsThrough(st.Val, 0) {
			if o, f, _, ok := fieldLoad(l); ok && f == "Protocols" && strings.HasSuffix(o, "extension.ALPNOffer") {
				fromOffer = true
			}
			if cl, ok := l.(*ssa.Call); ok && strings.HasPrefix(calleeName(&cl.Call), "slices.Clone") {
				for _, l2 := range c.Origins(cl.Call.Args[0], 0) {
					if o, f, _, ok := fieldLoad(l2); ok && f == "Protocols" && strings.HasSuffix(o, "extension.ALPNOffer") {
						fromOffer = true
					}
				}
			}
		}
		if fromOffer {
			recorded[st.Fn.Pkg.Pkg.Path()] = c.ipos(st.Instr)
		}
	}
	selects := map[string]bool{}
	for _, s := range c.CallsToName("pkg/protocol/extension.ALPNProtocolSelection") {
		if s.Fn.Pkg != nil {
			selects[s.Fn.Pkg.Pkg.Path()] = true
		}
	}
	n := 0
	for _, pkg := range sortedKeys(recorded) {
		n++
		r.Sites++
		r.Check(selects[pkg], rule, strings.TrimPrefix(pkg, modPath+"/")+":alpn-selection", recorded[pkg], "the package that records the peer's ALPN offer selects from it", "the peer's ALPN offer is recorded ("+recorded[pkg]+") but nothing in "+strings.TrimPrefix(pkg, modPath+"/")+" ever selects a protocol from it: with disjoint lists this version completes silently with no protocol on either side instead of failing with no_application_protocol, and with a common protocol none is negotiated")
	}
	r.Floor(rule, n, 2)
}

// ruleSuiteFitsPresentedCertificate (C11): the certificate the DTLS 1.2 server signs its
// ServerKeyExchange with is looked up under the peer's server name, after the cipher suite was
// fixed; the suite's certificate type must therefore be held against that certificate's key (a
// comparison of CipherSuite.CertificateType in the signing function), or the suite must have been
// chosen with that certificate in hand (a certificate lookup in the function that stores the
// negotiated suite). Filtering the configured suites by the default certificate alone lets the
// handshake complete on an ECDSA suite with an RSA certificate chosen by name.
func ruleSuiteFitsPresentedCertificate(c *Ctx, r *Report) {
	const rule = "suite-fits-presented-certificate"
	n := 0
	for _, s := range c.CallsTo(func(nm string) bool { return strings.HasSuffix(nm, "internal/config.HandshakeConfig).GetCertificate") }) {
		call, ok := s.Call.(*ssa.Call)
		if !ok || !inModule(s.Fn) || !strings.HasSuffix(s.Fn.Pkg.Pkg.Path(), pkgF12) {
			continue
		}
		fn := s.Fn
		// signs a key exchange afterwards?
		signs := false
		for _, k := range findCalls(fn, nameIs("internal/handshakecrypto.GenerateKeySignature")) {
			if instrReaches(call, k) {
				signs = true
			}
		}
		if !signs {
			continue
		}
		n++
		r.Sites += len(fn.Blocks)
		held := false
		for _, b := range fn.Blocks {
			for _, in := range b.Instrs {
				if cl, ok := in.(*ssa.Call); ok && cl.Call.IsInvoke() && cl.Call.Method.Name() == "CertificateType" && instrReaches(call, cl) {
					held = true
				}
			}
		}
		chosenWith := false
		for _, st := range c.StoresTo(tCom, "CipherSuite") {
			if !inModule(st.Fn) || !strings.HasSuffix(st.Fn.Pkg.Pkg.Path(), pkgF12) {
				continue
			}
			for _, g := range findCalls(st.Fn, func(nm string) bool { return strings.HasSuffix(nm, "HandshakeConfig).GetCertificate") }) {
				if instrReaches(g, st.Instr) {
					chosenWith = true
				}
			}
		}
		r.Check(held || chosenWith, rule, short(fn)+":signing-certificate", c.ipos(call), "the suite's certificate type is held against the certificate that signs", "the certificate that signs the ServerKeyExchange is chosen by the peer's server name after the suite was fixed, and neither is the suite's certificate type compared with that certificate's key nor was the suite chosen with it: the configured suites are filtered by the default certificate only, so with certificates of different key types the handshake completes on a suite that does not fit the key used")
	}
	r.Floor(rule, n, 1)
}

// onParserSide: fn is a flight parser by type, or is called (statically, up to three levels) by
// one.
func (c *Ctx) onParserSide(fn *ssa.Function, d int) bool {
	if firstResultIsFlight(fn) {
		return true
	}
	if d >= 3 {
		return false
	}
	for _, s := range c.CallsToName(short(fn)) {
		if s.Fn != fn && inModule(s.Fn) && c.onParserSide(s.Fn, d+1) {
			return true
		}
	}
	return false
}

// ruleVersionIsHighestCommon (C11): the negotiated protocol version is the highest one both sides
// allow, whatever order the peer listed its versions in: in the selector, no successful exit is
// reachable from inside the loop over the peer's list without returning to the loop header (the
// first acceptable element of the peer's list does not end the scan), and every call site hands it
// the configured minimum and maximum.
func ruleVersionIsHighestCommon(c *Ctx, r *Report) {
	const rule = "version-is-highest-common"
	fn := c.need(r, rule, "internal/config.SelectVersion")
	if fn == nil {
		return
	}
	r.Sites += len(fn.Blocks)
	if len(fn.Params) == 0 {
		r.Unk(rule, short(fn), c.pos(fn.Pos()), "no parameters")
		return
	}
	peer := fn.Params[0]
	n := 0
	for _, l := range naturalLoops(fn) {
		overPeer := false
		for b := range l.blocks {
			for _, in := range b.Instrs {
				switch x := in.(type) {
				case *ssa.IndexAddr:
					overPeer = overPeer || x.X == ssa.Value(peer)
				case *ssa.Index:
					overPeer = overPeer || x.X == ssa.Value(peer)
				}
			}
		}
		if !overPeer {
			continue
		}
		n++
		leak := ""
		for _, su := range l.header.Succs {
			if !l.blocks[su] {
				continue
			}
			w := &Walk{Fn: fn}
			w.Visit = func(in ssa.Instruction, _ Env) bool { return in.Block() != l.header }
			w.FromEdge(l.header, su)
			for _, ro := range w.Returns {
				last := len(ro.Raw) - 1
				if last < 0 {
					continue
				}
				if k, isK := constBool(ro.Raw[last]); isK && !k {
					continue
				}
				if ro.Vals[last].Kind == 1 && !ro.Vals[last].B {
					continue
				}
				leak = c.ipos(ro.Ret)
			}
		}
		r.Check(leak == "", rule, short(fn)+":scan-complete", c.pos(fn.Pos()), "a version is returned only after the whole list of the peer was examined", "a version is returned from inside the loop over the peer's list ("+leak+"): the first acceptable version in the peer's order is chosen, so a peer that lists an older version first is given it although both sides allow a newer one")
	}
	if n == 0 {
		r.Unk(rule, short(fn), c.pos(fn.Pos()), "no loop over the peer's version list: rule cannot be decided")
	}
	// the candidate replaces the version chosen so far only when it is the newer one: DTLS encodes
	// newer versions as numerically smaller minor bytes, so the comparison between the candidate
	// (an element of the peer's list) and the chosen value (a loop-carried Version) must be
	// candidate.Minor < / <= chosen.Minor, directly or through a two-parameter helper
	nd := 0
	minorCmp := func(callee *ssa.Function) (op token.Token, firstLeft bool, ok bool) {
		if callee == nil || len(callee.Params) != 2 {
			return 0, false, false
		}
		for _, b := range callee.Blocks {
			ret, isRet := b.Instrs[len(b.Instrs)-1].(*ssa.Return)
			if !isRet || len(ret.Results) != 1 {
				continue
			}
			bo, isB := ret.Results[0].(*ssa.BinOp)
			if !isB {
				return 0, false, false
			}
			side := func(v ssa.Value) int {
				_, f, base, okF := fieldLoad(v)
				if !okF || f != "Minor" {
					return -1
				}
				root := rootValueDeep(base)
				for i, p := range callee.Params {
					if root == ssa.Value(p) {
						return i
					}
				}
				return -1
			}
			l, rr := side(bo.X), side(bo.Y)
			if l < 0 || rr < 0 || l == rr {
				return 0, false, false
			}
			return bo.Op, l == 0, true
		}
		return 0, false, false
	}
	for _, l := range naturalLoops(fn) {
		for b := range l.blocks {
			for _, in := range b.Instrs {
				cl, ok := in.(*ssa.Call)
				if !ok || len(cl.Call.Args) != 2 {
					continue
				}
				isChosen := func(v ssa.Value) bool {
					phi, ok := v.(*ssa.Phi)
					return ok && phi.Block() == l.header && strings.HasSuffix(namedOrType(phi.Type()), "protocol.Version")
				}
				isCand := func(v ssa.Value) bool {
					for _, leaf := range append(c.Origins(v, 0), v) {
						if u, ok := leaf.(*ssa.UnOp); ok {
							if ia, ok := u.X.(*ssa.IndexAddr); ok && ia.X == ssa.Value(peer) {
								return true
							}
						}
					}
					return false
				}
				var candFirst bool
				switch {
				case isCand(cl.Call.Args[0]) && isChosen(cl.Call.Args[1]):
					candFirst = true
				case isChosen(cl.Call.Args[0]) && isCand(cl.Call.Args[1]):
					candFirst = false
				default:
					continue
				}
				nd++
				op, firstLeft, ok := minorCmp(cl.Call.StaticCallee())
				if !ok {
					r.Unk(rule, short(fn)+":prefers-newer", c.ipos(cl), "the comparison between the candidate and the chosen version is not a comparison of their minor bytes")
					continue
				}
				// normalise to: candidate.Minor OP chosen.Minor
				candLeft := candFirst == firstLeft
				newer := (candLeft && (op == token.LSS || op == token.LEQ)) || (!candLeft && (op == token.GTR || op == token.GEQ))
				r.Check(newer, rule, short(fn)+":prefers-newer", c.ipos(cl), "a candidate replaces the chosen version only when its minor byte is smaller (the newer DTLS version)", "a candidate of the peer's list replaces the version chosen so far when it is the OLDER one (DTLS encodes newer versions as smaller minor bytes): the lowest common version is negotiated")
			}
		}
	}
	r.Floor(rule+":direction", nd, 1)
	sites := 0
	for _, s := range c.CallsToName("internal/config.SelectVersion") {
		call, ok := s.Call.(*ssa.Call)
		if !ok || len(call.Call.Args) < 3 || !inModule(s.Fn) {
			continue
		}
		sites++
		_, f1, _, ok1 := fieldLoad(call.Call.Args[1])
		_, f2, _, ok2 := fieldLoad(call.Call.Args[2])
		r.Check(ok1 && ok2 && f1 == "MinVersion" && f2 == "MaxVersion", rule, short(s.Fn)+":range", c.ipos(call), "selected within [cfg.MinVersion, cfg.MaxVersion]", "the version is not selected within the configured [MinVersion, MaxVersion]")
	}
	r.Floor(rule, sites, 2)
}
