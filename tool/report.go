package main

import (
	"encoding/json"
	"fmt"
	"os"
	"path/filepath"
	"sort"
	"strings"
	"time"
)

type Status string

const (
	Discharged Status = "discharged"
	Violated   Status = "violated"
	Undecided  Status = "undecided"
	Info       Status = "info"
)

// Obligation is one decided (or undecided) instance of a rule at a construct.
// It is keyed by Rule+Construct, never by line.
type Obligation struct {
	Rule      string `json:"rule"`
	Construct string `json:"construct"`
	Pos       string `json:"pos,omitempty"`
	Status    Status `json:"status"`
	Detail    string `json:"detail,omitempty"`
	NonTriv   bool   `json:"-"` // required a path / flow / table argument
}

type instanceCount struct {
	Rule  string `json:"rule"`
	Found int    `json:"found"`
	Floor int    `json:"floor"`
}

type Report struct {
	Prop        string
	Obls        []Obligation
	Instances   []instanceCount
	Explanation string
	NotDecided  string
	Assumptions []string
	Sites       int // instructions / sites examined
	Extra       map[string]any
	seen        map[string]bool
}

func newReport(prop string) *Report {
	return &Report{Prop: prop, Extra: map[string]any{}, seen: map[string]bool{}}
}

func (r *Report) add(o Obligation) {
	k := o.Rule + "|" + o.Construct
	if r.seen[k] {
		// keep keys unique: suffix a counter so two sites in one construct stay distinct
		for i := 2; ; i++ {
			k2 := fmt.Sprintf("%s#%d", k, i)
			if !r.seen[k2] {
				o.Construct = fmt.Sprintf("%s#%d", o.Construct, i)
				k = k2
				break
			}
		}
	}
	r.seen[k] = true
	r.Obls = append(r.Obls, o)
}

func (r *Report) OK(rule, construct, pos, detail string) {
	r.add(Obligation{Rule: rule, Construct: construct, Pos: pos, Status: Discharged, Detail: detail, NonTriv: true})
}
func (r *Report) OKTrivial(rule, construct, pos, detail string) {
	r.add(Obligation{Rule: rule, Construct: construct, Pos: pos, Status: Discharged, Detail: detail})
}
func (r *Report) Bad(rule, construct, pos, detail string) {
	r.add(Obligation{Rule: rule, Construct: construct, Pos: pos, Status: Violated, Detail: detail, NonTriv: true})
}
func (r *Report) Unk(rule, construct, pos, detail string) {
	r.add(Obligation{Rule: rule, Construct: construct, Pos: pos, Status: Undecided, Detail: detail, NonTriv: true})
}
func (r *Report) Note(rule, construct, pos, detail string) {
	r.add(Obligation{Rule: rule, Construct: construct, Pos: pos, Status: Info, Detail: detail})
}

// Check records discharged/violated by a boolean.
func (r *Report) Check(ok bool, rule, construct, pos, okDetail, badDetail string) bool {
	if ok {
		r.OK(rule, construct, pos, okDetail)
	} else {
		r.Bad(rule, construct, pos, badDetail)
	}
	return ok
}

// Floor records how many instances of a rule were found against the hand-confirmed floor;
// fewer than the floor is undecided (a rule that matches nothing passes vacuously forever).
func (r *Report) Floor(rule string, found, floor int) {
	r.Instances = append(r.Instances, instanceCount{rule, found, floor})
	if found < floor {
		r.Unk(rule, "instance-floor", "", fmt.Sprintf("found %d instances, hand-confirmed floor is %d: anchors moved or rule no longer matches", found, floor))
	}
}

// ---- known findings ----

type knownFinding struct {
	Property  string `json:"property"`
	Rule      string `json:"rule"`
	Construct string `json:"construct"`
	What      string `json:"what"`
	Status    string `json:"status"` // "known" or "fixed: <commit>"
}

func loadKnown(path string) ([]knownFinding, error) {
	b, err := os.ReadFile(path)
	if err != nil {
		if os.IsNotExist(err) {
			return nil, nil
		}
		return nil, err
	}
	var k struct {
		Findings []knownFinding `json:"findings"`
	}
	if err := json.Unmarshal(b, &k); err != nil {
		return nil, err
	}
	return k.Findings, nil
}

// ---- output ----

type evidence struct {
	PropertyID  string         `json:"property_id"`
	Tier        string         `json:"tier"`
	Seed        int            `json:"seed"`
	Level       string         `json:"level"`
	Coverage    map[string]any `json:"coverage"`
	Assumptions []string       `json:"assumptions"`
	WallS       float64        `json:"wall_s"`
	Violations  int            `json:"violations"`
}

// finish writes the evidence file and violation replay files, prints the
// VIOLATION / KNOWN-FINDING lines and returns the exit code.
func (r *Report) finish(c *Ctx, verifDir, tier string, start time.Time, known []knownFinding, loadInfo map[string]any) int {
	vdir := filepath.Join(verifDir, "evidence", "violations", r.Prop)
	_ = os.RemoveAll(vdir)
	sort.SliceStable(r.Obls, func(i, j int) bool {
		if r.Obls[i].Rule != r.Obls[j].Rule {
			return r.Obls[i].Rule < r.Obls[j].Rule
		}
		return r.Obls[i].Construct < r.Obls[j].Construct
	})
	var nOb, nDis, nViol, nUnk, nInfo, nKnown, nNonTriv int
	distinct := map[string]bool{}
	var lines []string
	var samples []any
	var failing []any
	perRule := map[string]map[string]int{}
	for i := range r.Obls {
		o := &r.Obls[i]
		if perRule[o.Rule] == nil {
			perRule[o.Rule] = map[string]int{}
		}
		perRule[o.Rule][string(o.Status)]++
		if o.Status == Info {
			nInfo++
			continue
		}
		nOb++
		if o.NonTriv {
			distinct[o.Rule+"|"+o.Construct] = true
		}
		switch o.Status {
		case Discharged:
			nDis++
		case Violated, Undecided:
			isKnown := false
			if o.Status == Violated {
				for _, k := range known {
					if k.Property == r.Prop && k.Rule == o.Rule && k.Construct == o.Construct && k.Status == "known" {
						isKnown = true
						lines = append(lines, fmt.Sprintf("KNOWN-FINDING: property=%s rule=%s construct=%s %s", r.Prop, o.Rule, o.Construct, k.What))
						break
					}
				}
			}
			if isKnown {
				nKnown++
				failing = append(failing, map[string]any{"known_finding": true, "obligation": o})
				continue
			}
			kind := "violation"
			if o.Status == Undecided {
				nUnk++
				kind = "undecided"
			} else {
				nViol++
			}
			_ = os.MkdirAll(vdir, 0o755)
			p := filepath.Join(vdir, fmt.Sprintf("%d.json", nViol+nUnk))
			b, _ := json.MarshalIndent(map[string]any{"property": r.Prop, "kind": kind, "obligation": o}, "", " ")
			_ = os.WriteFile(p, b, 0o644)
			lines = append(lines, fmt.Sprintf("VIOLATION property=%s replay=%s kind=%s rule=%s construct=%s at %s: %s", r.Prop, p, kind, o.Rule, o.Construct, o.Pos, o.Detail))
			failing = append(failing, o)
		}
	}
	nNonTriv = len(distinct)
	// samples: a spread of real obligations (first of each rule, up to 40), failing ones first
	seenRule := map[string]int{}
	for _, o := range r.Obls {
		if o.Status == Info {
			continue
		}
		if seenRule[o.Rule] < 2 && len(samples) < 60 {
			seenRule[o.Rule]++
			samples = append(samples, o)
		}
	}
	var infos []Obligation
	for _, o := range r.Obls {
		if o.Status == Info {
			infos = append(infos, o)
		}
	}
	cov := map[string]any{
		"explanation":         r.Explanation,
		"not_decided":         r.NotDecided,
		"obligations":         nOb,
		"discharged":          nDis,
		"known_findings":      nKnown,
		"undecided":           nUnk,
		"evaluations":         max(r.Sites, nOb),
		"distinct_nontrivial": nNonTriv,
		"rule":                "one obligation per (rule, construct) resolved through the type-checked SSA program of /repo's working tree; evaluations = SSA instructions/sites examined by the rules of this property; non-trivial = obligations that needed a dominance, reachability, provenance or table argument (not a mere presence test); distinct = distinct rule|construct keys",
		"samples":             samples,
		"failing":             failing,
		"per_rule":            perRule,
		"instances":           r.Instances,
		"informational":       infos,
		"all_obligations":     r.Obls,
		"analysed":            loadInfo,
		"checker_cmd":         fmt.Sprintf("/verif/bin/dtlsvet -prop %s -tier %s", r.Prop, tier),
		"trusted_base":        []string{"go/types type checker", "golang.org/x/tools go/ssa v0.50.0 and CHA call graph", "the rule code under /verif/tool", "spec tables under /verif/spec transcribed from the RFCs"},
		"exhaustive":          false,
	}
	for k, v := range r.Extra {
		cov[k] = v
	}
	ev := evidence{PropertyID: r.Prop, Tier: tier, Seed: 0, Level: "other", Coverage: cov,
		Assumptions: append([]string{
			"the analysed program is the non-test source of module github.com/pion/dtls/v3 in /repo's working tree (examples excluded), linux/amd64 build",
			"no unsafe, reflect or cgo in the module (re-verified by the loader); CHA over-approximates dynamic calls",
			"behaviour of dependencies (pion/transport replaydetector/deadline/netctx, x/crypto, the Go standard library) is assumed, not analysed",
		}, r.Assumptions...),
		WallS: time.Since(start).Seconds(), Violations: nViol + nUnk}
	_ = os.MkdirAll(filepath.Join(verifDir, "evidence"), 0o755)
	b, _ := json.MarshalIndent(ev, "", " ")
	if err := os.WriteFile(filepath.Join(verifDir, "evidence", r.Prop+".json"), b, 0o644); err != nil {
		fmt.Println("cannot write evidence:", err)
		return 2
	}
	fmt.Printf("%s tier=%s: %d obligations, %d discharged, %d known findings, %d violated, %d undecided, %d informational; %d sites examined; %.1fs\n",
		r.Prop, tier, nOb, nDis, nKnown, nViol, nUnk, nInfo, max(r.Sites, nOb), time.Since(start).Seconds())
	rules := make([]string, 0, len(perRule))
	for k := range perRule {
		rules = append(rules, k)
	}
	sort.Strings(rules)
	for _, k := range rules {
		var parts []string
		for _, s := range []string{"discharged", "violated", "undecided", "info"} {
			if n := perRule[k][s]; n > 0 {
				parts = append(parts, fmt.Sprintf("%s=%d", s, n))
			}
		}
		fmt.Printf("  rule %-44s %s\n", k, strings.Join(parts, " "))
	}
	for _, l := range lines {
		fmt.Println(l)
	}
	if nViol+nUnk > 0 {
		return 1
	}
	return 0
}
