package main

import (
	"fmt"
	"go/token"
	"go/types"
	"strings"

	"golang.org/x/tools/go/ssa"
)

// randomField: which Random field (LocalRandom / RemoteRandom / localRandom / remoteRandom) a
// []byte argument derives from through x.<field>.MarshalFixed()[:].
func randomField(c *Ctx, v ssa.Value) string {
	for _, l := range c.Origins(v, 0) {
		al, ok := l.(*ssa.Alloc)
		if !ok {
			continue
		}
		for _, ref := range *al.Referrers() {
			st, ok := ref.(*ssa.Store)
			if !ok || st.Addr != al {
				continue
			}
			call, ok := st.Val.(*ssa.Call)
			if !ok || !strings.HasSuffix(calleeName(&call.Call), "Random).MarshalFixed") {
				continue
			}
			if _, f, _, ok := fieldOfAddr(call.Call.Args[0]); ok {
				return f
			}
		}
	}
	return ""
}

// ruleRoleMirror (C01-1): every key-derivation call takes the client random from the local
// random exactly when the endpoint is the client, and the isClient flag agrees.
func ruleRoleMirror(c *Ctx, r *Report) {
	const rule = "role-mirror"
	n := 0
	isLocal := func(f string) bool { return strings.EqualFold(f, "LocalRandom") }
	isRemote := func(f string) bool { return strings.EqualFold(f, "RemoteRandom") }
	for _, fn := range c.Fns {
		for _, call := range findCalls(fn, func(nm string) bool {
			return strings.HasPrefix(nm, "iface:") && strings.HasSuffix(nm, "CipherSuite.Init")
		}) {
			n++
			r.Sites++
			a := call.Call.Args // masterSecret, clientRandom, serverRandom, isClient
			role, isC := constBool(a[3])
			key := fmt.Sprintf("%s:Init(isClient=%v)", short(fn), a[3].Name())
			if !isC {
				// the flag is the endpoint's own role: then, for either role, the randoms handed
				// over on the paths of that role are the ones of that role
				owner, fld, _, isLoad := fieldLoad(a[3])
				if !isLoad || !strings.EqualFold(fld, "isClient") {
					r.Unk(rule, key, c.ipos(call), "isClient argument of CipherSuite.Init is neither a constant nor the endpoint's role at this site")
					continue
				}
				n++ // one site, both roles
				for _, rl := range []bool{true, false} {
					as := []atomAssume{{mLoad(owner, fld), vBool(rl)}}
					fieldOf := func(arg ssa.Value) string {
						var l []seg
						var err *layoutErr
						withAssume(as, func() { l, err = c.pathLayout(fn, as, arg, call, 0) })
						if err != nil {
							return "?" + err.msg
						}
						m := marshalFixedOfField.FindStringSubmatch(layoutString(l))
						if m == nil || !strings.HasSuffix(layoutString(l), "[31..0]") || len(l) != 1 {
							return "?" + layoutString(l)
						}
						return m[1]
					}
					cf, sf := fieldOf(a[1]), fieldOf(a[2])
					ok := (rl && isLocal(cf) && isRemote(sf)) || (!rl && isRemote(cf) && isLocal(sf))
					r.Check(ok, rule, fmt.Sprintf("%s:Init(isClient=role):%v", short(fn), rl), c.ipos(call), fmt.Sprintf("client_random=%s server_random=%s", cf, sf), fmt.Sprintf("key derivation on the paths where the endpoint's isClient is %v takes client_random from %q and server_random from %q: the two endpoints derive different keys (or the same endpoint mirrors itself)", rl, cf, sf))
				}
				continue
			}
			key = fmt.Sprintf("%s:Init(isClient=%v)", short(fn), role)
			cf, sf := randomField(c, a[1]), randomField(c, a[2])
			ok := (role && isLocal(cf) && isRemote(sf)) || (!role && isRemote(cf) && isLocal(sf))
			r.Check(ok, rule, key, c.ipos(call), fmt.Sprintf("client_random=%s server_random=%s", cf, sf), fmt.Sprintf("key derivation with isClient=%v takes client_random from %q and server_random from %q: the two endpoints derive different keys (or the same endpoint mirrors itself)", role, cf, sf))
			// the constant flag agrees with the branch on IsClient, when the function branches on it
			for _, fld := range []struct{ owner, f string }{{tCom, "IsClient"}, {"dtls.State", "isClient"}} {
				for _, rl := range []bool{true, false} {
					has := false
					for _, b := range fn.Blocks {
						for _, in := range b.Instrs {
							if v, ok := in.(ssa.Value); ok && isFieldLoad(v, fld.owner, fld.f) {
								has = true
							}
						}
					}
					if !has {
						continue
					}
					w := (&Walk{Fn: fn, Assume: assumeAll(atomAssume{mLoad(fld.owner, fld.f), vBool(rl)})}).FromEntry()
					if w.Reached[call] {
						r.Check(rl == role, rule, fmt.Sprintf("%s:branch(IsClient=%v)", key, rl), c.ipos(call), "the IsClient branch agrees with the isClient flag", fmt.Sprintf("the Init call with isClient=%v is reachable when the endpoint's IsClient is %v", role, rl))
					}
				}
			}
			// master secret derivation in the same function follows the same role
			for _, ms := range findCalls(fn, nameIs(pkgPRF+".MasterSecret")) {
				mc, msf := randomField(c, ms.Call.Args[1]), randomField(c, ms.Call.Args[2])
				ok := (role && isLocal(mc) && isRemote(msf)) || (!role && isRemote(mc) && isLocal(msf))
				r.Check(ok, rule, short(fn)+":MasterSecret", c.ipos(ms), fmt.Sprintf("client_random=%s server_random=%s", mc, msf), fmt.Sprintf("master secret computed with client_random from %q / server_random from %q in a function whose role is isClient=%v", mc, msf, role))
			}
		}
	}
	r.Floor(rule, n, 6)
	// both sides take the EMS input from Cache.SessionHash, whose rule list is the CertificateVerify transcript
	for _, s := range c.CallsToName(pkgPRF + ".ExtendedMasterSecret") {
		call := s.Call.(*ssa.Call)
		ok := allLeaves(c.Origins(call.Call.Args[1], 0), func(v ssa.Value) bool { return isCallResult(v, nameHasSuffix("Cache).SessionHash")) })
		r.Check(ok, "session-hash", short(s.Fn), c.ipos(call), "session_hash = Cache.SessionHash(...)", "the extended master secret is not computed over Cache.SessionHash")
	}
	if fn := c.need(r, "session-hash", "(*internal/flight.Cache).SessionHash"); fn != nil {
		found := false
		for _, b := range fn.Blocks {
			for _, in := range b.Instrs {
				call, ok := in.(*ssa.Call)
				if !ok {
					continue
				}
				if name := calleeName(&call.Call); !strings.HasSuffix(name, "Cache).Pull") {
					// or the merging variant, which hands its rules to Pull as they are
					pm := call.Call.StaticCallee()
					if !strings.HasSuffix(name, "Cache).PullAndMerge") || pm == nil || len(pm.Params) == 0 {
						continue
					}
					through := false
					for _, inner := range findCalls(pm, nameHasSuffix("Cache).Pull")) {
						if inner.Call.Args[len(inner.Call.Args)-1] == ssa.Value(pm.Params[len(pm.Params)-1]) {
							through = true
						}
					}
					if !through {
						continue
					}
				}
				if rl, ok := c.ruleList(call.Call.Args[len(call.Call.Args)-1], 0); ok {
					found = true
					want := "client:ClientHello@E server:ServerHello@E server:Certificate@E server:ServerKeyExchange@E server:CertificateRequest@E server:ServerHelloDone@E client:Certificate@E client:ClientKeyExchange@E"
					r.Check(rulesString(rl) == want, "session-hash", short(fn)+":rules", c.ipos(call), "session hash covers ClientHello..ClientKeyExchange (RFC 7627 3)", "session hash transcript differs from RFC 7627: "+rulesString(rl))
				}
			}
		}
		if !found {
			r.Unk("session-hash", short(fn)+":rules", c.pos(fn.Pos()), "rule list of SessionHash not resolvable")
		}
	}
}

// ruleCommitDiscipline (C01-3): negotiated extension values and the SRTP decision are committed on
// every path on which the hello exchange succeeds, and only after the peer's hello validated.
func ruleCommitDiscipline(c *Ctx, r *Report) {
	const rule = "commit-on-success"
	isCommitExt := nameHasSuffix(").CommitNegotiatedExtensions")
	isCommitSRTP := nameIs("internal/flight.CommitSRTP")
	type inst struct {
		fn       string
		generate bool
	}
	for _, in := range []inst{
		{pkgF12 + ".flight3Parse", false}, {pkgF12 + ".flight4Generate", true}, {pkgF12 + ".flight4bGenerate", true},
		{pkgF13 + ".flight4Generate", true},
	} {
		fn := c.need(r, rule, in.fn)
		if fn == nil {
			continue
		}
		r.Sites += len(fn.Blocks)
		for _, what := range []struct {
			name  string
			match func(string) bool
		}{{"CommitNegotiatedExtensions", isCommitExt}, {"CommitSRTP", isCommitSRTP}} {
			commits := map[ssa.Instruction]bool{}
			for _, x := range findCalls(fn, what.match) {
				commits[x] = true
			}
			if len(commits) == 0 {
				r.Bad(rule, short(fn)+":"+what.name, c.pos(fn.Pos()), what.name+" is never called in a function that completes the hello exchange")
				continue
			}
			// assumptions describing success of a delegated abbreviated path
			var as []atomAssume
			for _, hr := range findCalls(fn, nameIs(pkgF12+".handleResumption")) {
				next := resultValue(hr, 0)
				errV := resultValue(hr, 2)
				alV := resultValue(hr, 1)
				as = append(as,
					atomAssume{func(v ssa.Value) bool {
						bo, ok := v.(*ssa.BinOp)
						return ok && (cellValue(bo.X) == next || cellValue(bo.Y) == next) && bo.Op.String() == "!="
					}, vBool(true)},
					atomAssume{func(v ssa.Value) bool {
						bo, ok := v.(*ssa.BinOp)
						return ok && (cellValue(bo.X) == next || cellValue(bo.Y) == next) && bo.Op.String() == "=="
					}, vBool(false)},
					atomAssume{mValue(errV), vNil(true)}, atomAssume{mValue(alV), vNil(true)})
			}
			// this invocation processes the ServerHello (client parser)
			if !in.generate {
				as = append(as, atomAssume{mTypeAssertOK("pkg/protocol/handshake.MessageServerHello"), vBool(true)},
					atomAssume{mTypeAssertOK("pkg/protocol/handshake.MessageHelloVerifyRequest"), vBool(false)})
			}
			w := &Walk{Fn: fn, Assume: assumeAll(as...)}
			w.Visit = func(x ssa.Instruction, _ Env) bool { return !commits[x] }
			w.FromEntry()
			bad := ""
			for _, ro := range w.Returns {
				res := retResults(ro.Ret)
				success := false
				if in.generate {
					success = !isNilConst(res[0]) && isNilConst(res[1]) && isNilConst(res[2])
				} else {
					success = isAdvanceReturn(ro.Ret) && ro.Vals[2] != vNil(false) && ro.Vals[1] != vNil(false)
					if k, isC := constInt(res[0]); isC && k == c.enumConsts(pkgF12, "Flight")["Flight3"] {
						success = false // HelloVerifyRequest round: nothing negotiated yet
					}
				}
				if success {
					bad = c.ipos(ro.Ret)
				}
			}
			r.Check(bad == "" && !w.overflow, rule, short(fn)+":"+what.name, c.pos(fn.Pos()), "every successful exit passes "+what.name, "a successful exit ("+bad+") is reachable without "+what.name+": the two endpoints can finish the handshake holding different negotiated values")
		}
	}
	// only after validation (client)
	if fn := c.Fn(pkgF12 + ".flight3Parse"); fn != nil {
		vals := findCalls(fn, nameIs("internal/negotiation.ValidateServerHelloResponse"))
		srtp := findCalls(fn, nameIs("internal/negotiation.ValidateSRTPSelection"))
		for _, cm := range findCalls(fn, isCommitExt) {
			if isNilConst(cm.Call.Args[len(cm.Call.Args)-1]) {
				continue // reset to "nothing negotiated"
			}
			ok := len(vals) == 1
			why := "ValidateServerHelloResponse missing"
			if ok {
				w := passesUnder(fn, []atomAssume{{mTypeAssertOK("pkg/protocol/handshake.MessageServerHello"), vBool(true)}, {mTypeAssertOK("pkg/protocol/handshake.MessageHelloVerifyRequest"), vBool(false)}}, vals[0], errResult(vals[0]), cm)
				ok, why = w == "", w
			}
			r.Check(ok, "commit-after-validate", short(fn)+":extensions", c.ipos(cm), "negotiated extensions committed only after ValidateServerHelloResponse succeeded", "negotiated extension values are committed before / without validating the ServerHello against the offer: "+why)
			ls := c.Origins(cm.Call.Args[len(cm.Call.Args)-1], 0)
			r.Check(allLeaves(ls, func(v ssa.Value) bool {
				return isNilConst(v) || isCallResult(v, nameIs("internal/negotiation.DecideConnectionID"))
			}), "commit-after-validate", short(fn)+":decision-source", c.ipos(cm), "committed decision = DecideConnectionID(offer, hello)", "the committed connection-ID decision does not come from DecideConnectionID")
		}
		for _, cm := range findCalls(fn, isCommitSRTP) {
			ok := len(srtp) == 1
			why := "ValidateSRTPSelection missing"
			if ok {
				// reached without a ServerHello in this pass is fine (zero decision); with one it needs the validation
				w := passesUnder(fn, []atomAssume{{mTypeAssertOK("pkg/protocol/handshake.MessageServerHello"), vBool(true)}, {mTypeAssertOK("pkg/protocol/handshake.MessageHelloVerifyRequest"), vBool(false)}}, srtp[0], errResult(srtp[0]), cm)
				ok, why = w == "", w
			}
			r.Check(ok, "commit-after-validate", short(fn)+":srtp", c.ipos(cm), "SRTP decision committed only after ValidateSRTPSelection succeeded", "the SRTP profile is committed without validating the server's selection: "+why)
		}
	}
}

// rulePeerChain (C01-4): the peer chain an endpoint reports is what the peer's Certificate
// message carried (or what an imported state carried).
func rulePeerChain(c *Ctx, r *Report) {
	const rule = "peer-chain-source"
	n := 0
	for _, st := range c.StoresTo(tCom, "PeerCertificates") {
		key := short(st.Fn)
		r.Sites++
		if strings.HasPrefix(key, "internal/state.") {
			r.Note(rule, key, c.ipos(st.Instr), "clone")
			continue
		}
		n++
		ls := c.Origins(st.Val, 1)
		ok := allLeaves(ls, func(v ssa.Value) bool {
			return isFieldLoad(v, "pkg/protocol/handshake.MessageCertificate", "Certificate") ||
				isFieldLoad(v, "internal/handshake.protectedHandshakeFlight", "peerCertificates") ||
				isFieldLoad(v, "dtls.State", "PeerCertificates")
		})
		r.Check(ok, rule, key, c.ipos(st.Instr), "from the peer's Certificate message / imported state", "the recorded peer chain does not come from the peer's Certificate message: "+c.describeAll(ls))
	}
	r.Floor(rule, n, 3)
	for _, st := range c.StoresTo("internal/handshake.protectedHandshakeFlight", "peerCertificates") {
		ls := c.Origins(st.Val, 0)
		ok := allLeaves(ls, func(v ssa.Value) bool {
			return isCallResult(v, nameIs("internal/handshake.rawCertificatesFromCertificate"))
		})
		r.Check(ok, rule, short(st.Fn)+":1.3", c.ipos(st.Instr), "from rawCertificatesFromCertificate(peer's Certificate)", "DTLS 1.3 peer chain does not come from the peer's Certificate message")
	}
}

// ruleSRTPCommitMatchesWire (C01): the DTLS 1.2 server commits an SRTP decision and then sends a
// ServerHello that an application hook may have rewritten. What it committed must be what went on
// the wire: validateServerSRTP succeeds only if every field of the decision derived from the final
// ServerHello equals the same field of the committed decision.
func ruleSRTPCommitMatchesWire(c *Ctx, r *Report) {
	const rule = "srtp-commit-matches-wire"
	const tDec = "internal/negotiation.SRTPDecision"
	fn := c.need(r, rule, pkgF12+".validateServerSRTP")
	if fn == nil {
		return
	}
	r.Sites += len(fn.Blocks)
	okRet := successReturn(fn)
	if okRet == nil {
		r.Unk(rule, short(fn), c.pos(fn.Pos()), "no unique nil return")
		return
	}
	named := c.Named("internal/negotiation", "SRTPDecision")
	if named == nil {
		r.Unk(rule, short(fn), c.pos(fn.Pos()), "type SRTPDecision not found")
		return
	}
	st, _ := named.Underlying().(*types.Struct)
	// the two operands: the decision computed from the final message, and the committed one (a parameter)
	// what a local variable holds: the value of its single whole-variable store
	held := func(base ssa.Value) ssa.Value {
		al, ok := stripLoad(base).(*ssa.Alloc)
		if !ok {
			al, ok = base.(*ssa.Alloc)
		}
		if !ok {
			return base
		}
		var v ssa.Value
		for _, ref := range *al.Referrers() {
			if st, isSt := ref.(*ssa.Store); isSt && st.Addr == ssa.Value(al) {
				if v != nil {
					return base
				}
				v = st.Val
			}
		}
		if v == nil {
			return base
		}
		return v
	}
	isGot := func(base ssa.Value) bool {
		return isCallResult(held(base), nameHasSuffix("negotiation.ValidateSRTPSelection"))
	}
	isWant := func(base ssa.Value) bool {
		_, ok := held(base).(*ssa.Parameter)
		return ok
	}
	// the fields that travel in the use_srtp selection
	wire := map[string]bool{}
	if sel := c.Named("pkg/protocol/extension", "SRTPSelection"); sel != nil {
		if ss, ok := sel.Underlying().(*types.Struct); ok {
			for i := 0; i < ss.NumFields(); i++ {
				wire[fieldName(ss.Field(i))] = true
			}
		}
	}
	if len(wire) == 0 {
		r.Unk(rule, short(fn), c.pos(fn.Pos()), "extension.SRTPSelection not found")
		return
	}
	for i := 0; i < st.NumFields(); i++ {
		f := fieldName(st.Field(i))
		if !wire[f] {
			continue
		}
		good := false
		for _, b := range fn.Blocks {
			for _, in := range b.Instrs {
				var x, y ssa.Value
				var test ssa.Value
				switch t := in.(type) {
				case *ssa.BinOp:
					if t.Op != token.EQL && t.Op != token.NEQ {
						continue
					}
					x, y, test = t.X, t.Y, t
				case *ssa.Call:
					n := calleeName(&t.Call)
					if n != "bytes.Equal" && n != "crypto/subtle.ConstantTimeCompare" && n != "slices.Equal[[]byte]" {
						continue
					}
					x, y, test = t.Call.Args[0], t.Call.Args[1], t
				default:
					continue
				}
				ox, fx, bx, okx := fieldLoad(x)
				oy, fy, by, oky := fieldLoad(y)
				if !okx || !oky || ox != tDec || oy != tDec || fx != f || fy != f {
					continue
				}
				if !((isGot(bx) && isWant(by)) || (isGot(by) && isWant(bx))) {
					continue
				}
				// a mismatch must not reach the nil return
				mismatch := vBool(false)
				if bo, isBo := test.(*ssa.BinOp); isBo && bo.Op == token.NEQ {
					mismatch = vBool(true)
				}
				w := (&Walk{Fn: fn, Assume: func(v ssa.Value) (Val, bool) {
					if v == test {
						return mismatch, true
					}
					return unknown, false
				}}).FromEntry()
				if !w.Reached[okRet] {
					good = true
				}
			}
		}
		r.Check(good, rule, short(fn)+":"+f, c.pos(fn.Pos()), "the committed "+f+" must equal the one in the final ServerHello", "validateServerSRTP succeeds although the committed SRTP "+f+" differs from the one in the ServerHello that is sent (a ServerHello hook can make the two sides commit different values while the handshake completes)")
	}
}
