package main

import (
	"fmt"
	"go/types"
	"sort"
	"strings"

	"golang.org/x/tools/go/ssa"
)

// ruleCompletion13 (C03, C04): which flight the DTLS 1.3 state machine may be in when it declares
// the handshake finished. Completion by sending or by acknowledgement is only sound for the one
// flight after which nothing is expected from the peer (the client's last flight); an endpoint that
// still owes the processing of the peer's Certificate / CertificateVerify / Finished must reach
// "finished" only through the parse of that flight. Decided by exploring each completing function
// once per flight value (the current flight bound to the constant, module helpers followed) and
// recording whether a StateFinished result can be produced.
func ruleCompletion13(c *Ctx, r *Report) {
	const rule = "completion13"
	flights := c.enumConsts("internal/flight/flight13", "Flight")
	states := c.enumConsts(pkgHS, "State")
	fin, okFin := states["StateFinished"]
	if len(flights) < 4 || !okFin {
		r.Unk(rule, "tables", "", "flight13.Flight constants or handshake.StateFinished not found")
		return
	}
	followModule := func(callee *ssa.Function) bool { return inModule(callee) }
	isFlightT := func(t types.Type) bool { return strings.HasSuffix(namedOrType(t), "internal/flight/flight13.Flight") }
	isStateT := func(t types.Type) bool { return namedOrType(t) == pkgHS+".State" }
	// the repository's own predicates, evaluated per constant
	pred := func(method string) (map[string]bool, bool) {
		fn := c.Fn("(internal/flight/flight13.Flight)." + method)
		if fn == nil {
			return nil, false
		}
		out := map[string]bool{}
		for name, v := range flights {
			val := v
			w := &Walk{Fn: fn, Follow: followModule, Assume: func(x ssa.Value) (Val, bool) {
				if len(fn.Params) > 0 && x == ssa.Value(fn.Params[0]) {
					return vInt(val), true
				}
				return unknown, false
			}}
			w.FromEntry()
			t, f := false, false
			for _, ro := range w.Returns {
				if len(ro.Vals) == 1 && ro.Vals[0].Kind == 1 {
					if ro.Vals[0].B {
						t = true
					} else {
						f = true
					}
				} else {
					t, f = true, true
				}
			}
			if t == f {
				return nil, false
			}
			out[name] = t
		}
		return out, true
	}
	lastSend, ok1 := pred("IsLastSendFlight")
	lastRecv, ok2 := pred("IsLastRecvFlight")
	if !ok1 || !ok2 {
		r.Unk(rule, "predicates", "", "IsLastSendFlight / IsLastRecvFlight cannot be evaluated per flight constant")
		return
	}
	var ls, lr []string
	for n, b := range lastSend {
		if b {
			ls = append(ls, n)
		}
	}
	for n, b := range lastRecv {
		if b {
			lr = append(lr, n)
		}
	}
	sort.Strings(ls)
	sort.Strings(lr)
	r.Check(len(ls) == 1 && len(lr) == 1 && ls[0] != lr[0], rule, "last-flights", "", fmt.Sprintf("last send flight %v, last receive flight %v", ls, lr), fmt.Sprintf("the last send flight %v and the last receive flight %v are not two distinct single flights", ls, lr))

	ownRow := map[string]bool{"transitionAfterACK": true, "send": true, "handleReceivedFlight": true, "advanceAfterReceivedFlight": true, "finish": true}
	canFinish := func(fn *ssa.Function, flightVal int64, extra func(ssa.Value) (Val, bool)) (bool, ssa.Instruction) {
		w := &Walk{Fn: fn, Follow: followModule, Assume: func(v ssa.Value) (Val, bool) {
			if _, f, _, ok := fieldLoad(v); ok && f == "currentFlight" && isFlightT(v.Type()) {
				return vInt(flightVal), true
			}
			if p, ok := v.(*ssa.Parameter); ok && p.Parent() == fn && isFlightT(p.Type()) && p.Name() == "currentFlight" {
				return vInt(flightVal), true
			}
			if extra != nil {
				return extra(v)
			}
			return unknown, false
		}}
		// the function itself and the private helpers only it calls
		own := map[*ssa.Function]bool{fn: true}
		for _, u := range c.unitFuncs(fn) {
			if ownRow[u.Name()] {
				continue // decided in a row of its own
			}
			if sites, closed := c.staticCallers(u); closed && len(sites) > 0 {
				only := true
				for _, s := range sites {
					if !own[s.Fn] {
						only = false
					}
				}
				if only {
					own[u] = true
				}
			}
		}
		at := producesStateIn(w, own, isStateT, fin)
		return at != nil, at
	}
	type target struct {
		name  string
		allow map[string]bool
		why   string
	}
	n := 0
	for _, t := range []target{
		{"(*" + pkgHS + ".fsm13).transitionAfterACK", lastSend, "completion by acknowledgement"},
		{"(*" + pkgHS + ".fsm13).send", lastSend, "completion by sending"},
		{"(*" + pkgHS + ".fsm13).handleReceivedFlight", lastSend, "completion by an implicit acknowledgement"},
	} {
		fn := c.need(r, rule, t.name)
		if fn == nil {
			continue
		}
		r.Sites += len(fn.Blocks)
		some := false
		for _, name := range sortedKeys(flights) {
			can, at := canFinish(fn, flights[name], nil)
			if !can {
				r.OK(rule, fmt.Sprintf("%s:%s", short(fn), name), c.pos(fn.Pos()), "cannot produce StateFinished in "+name)
				n++
				continue
			}
			some = true
			n++
			r.Check(t.allow[name], rule, fmt.Sprintf("%s:%s", short(fn), name), c.ipos(at), t.why+" is possible in "+name+" only", fmt.Sprintf("%s is possible while the state machine is in %s: the handshake is declared finished although the peer's last flight (Certificate / CertificateVerify / Finished) was not processed", t.why, name))
		}
		r.Check(some, rule, short(fn)+":completes", c.pos(fn.Pos()), "produces StateFinished for its flight", "no flight value lets "+short(fn)+" complete the handshake (rule no longer matches the code)")
	}
	// completion after a parsed flight: only when the parser stayed in the last receive flight
	if fn := c.need(r, rule, "(*"+pkgHS+".handshakeContext).advanceAfterReceivedFlight"); fn != nil {
		r.Sites += len(fn.Blocks)
		some := false
		for _, cur := range sortedKeys(flights) {
			for _, next := range sortedKeys(flights) {
				nv := flights[next]
				can, at := canFinish(fn, flights[cur], func(v ssa.Value) (Val, bool) {
					if p, ok := v.(*ssa.Parameter); ok && p.Parent() == fn && isFlightT(p.Type()) && p.Name() != "currentFlight" {
						return vInt(nv), true
					}
					return unknown, false
				})
				n++
				key := fmt.Sprintf("%s:%s->%s", short(fn), cur, next)
				if !can {
					r.OK(rule, key, c.pos(fn.Pos()), "cannot produce StateFinished")
					continue
				}
				some = true
				r.Check(cur == next && lastRecv[cur], rule, key, c.ipos(at), "completion after the parse of the last receive flight", fmt.Sprintf("the handshake can be declared finished on the transition %s -> %s, which is not the parse of the last receive flight", cur, next))
			}
		}
		r.Check(some, rule, short(fn)+":completes", c.pos(fn.Pos()), "produces StateFinished for the last receive flight", "no flight pair lets "+short(fn)+" complete the handshake (rule no longer matches the code)")
		// and only on the server side
		for _, cur := range lr {
			can, _ := canFinish(fn, flights[cur], func(v ssa.Value) (Val, bool) {
				if p, ok := v.(*ssa.Parameter); ok && p.Parent() == fn && isFlightT(p.Type()) {
					return vInt(flights[cur]), true
				}
				if _, f, _, ok := fieldLoad(v); ok && f == "IsClient" {
					return vBool(true), true
				}
				return unknown, false
			})
			r.Check(!can, rule, short(fn)+":client-never-completes-by-receiving", c.pos(fn.Pos()), "a client does not complete on a received flight", "a client can complete the handshake on a received flight")
		}
	}
	// completion by sending / acknowledgement is the client's only
	for _, nm := range []string{"(*" + pkgHS + ".fsm13).send"} {
		fn := c.Fn(nm)
		if fn == nil {
			continue
		}
		for _, name := range ls {
			can, at := canFinish(fn, flights[name], func(v ssa.Value) (Val, bool) {
				if _, f, _, ok := fieldLoad(v); ok && f == "IsClient" {
					return vBool(false), true
				}
				return unknown, false
			})
			pos := c.pos(fn.Pos())
			if at != nil {
				pos = c.ipos(at)
			}
			r.Check(!can, rule, short(fn)+":server-never-completes-by-sending", pos, "a server does not complete by sending", "a server can complete the handshake by sending a flight")
		}
	}
	r.Floor(rule, n, 12)
}

// producesState explores w (already configured) from fn's entry and reports the first instruction
// of fn itself at which a value of the state type equal to want is returned or stored (into a
// transition struct), evaluating the operand along each path (so a state obtained from a followed
// helper counts).
func producesState(w *Walk, fn *ssa.Function, isStateT func(types.Type) bool, want int64) ssa.Instruction {
	return producesStateIn(w, map[*ssa.Function]bool{fn: true}, isStateT, want)
}

// producesStateIn is producesState over a set of functions (a function and its private helpers).
func producesStateIn(w *Walk, fns map[*ssa.Function]bool, isStateT func(types.Type) bool, want int64) ssa.Instruction {
	var at ssa.Instruction
	hitv := func(v ssa.Value, env Env) bool {
		v = unspill(v)
		if !isStateT(v.Type()) {
			return false
		}
		if k, ok := v.(*ssa.Const); ok {
			return k.Int64() == want
		}
		ev := w.eval(v, env)
		if ev.Kind == 3 {
			return ev.I == want
		}
		return false
	}
	prev := w.VisitRaw
	w.VisitRaw = func(in ssa.Instruction, env Env, raw map[*ssa.Phi]ssa.Value) bool {
		if prev != nil && !prev(in, env, raw) {
			return false
		}
		if !fns[in.Parent()] {
			return true
		}
		hit := false
		switch x := in.(type) {
		case *ssa.Store:
			hit = hitv(x.Val, env)
		case *ssa.Return:
			for _, res := range x.Results {
				if hitv(res, env) {
					hit = true
				}
			}
		}
		if hit && (at == nil || in.Pos() < at.Pos()) {
			at = in
		}
		return true
	}
	w.FromEntry()
	return at
}

// ruleCookieFlightNeverResent (C13): the flight the generator tables flag as non-retransmittable
// (the cookie request) is sent once per ClientHello: with the state machine in that flight and
// its retransmit flag false, no handler of a timer, an acknowledgement, a peer retransmission or
// any other received event can produce StateSending; only the preparation of a fresh flight does -
// and, since a lost cookie request must be recoverable, a repetition of the peer's ClientHello (a
// received state with a handshake record flagged as retransmission): explored once with that flag
// false and once with no handshake record present.
func ruleCookieFlightNeverResent(c *Ctx, r *Report) {
	const rule = "cookie-flight-never-resent"
	states := c.enumConsts(pkgHS, "State")
	sending, ok := states["StateSending"]
	if !ok {
		r.Unk(rule, "tables", "", "handshake.StateSending not found")
		return
	}
	isStateT := func(t types.Type) bool { return namedOrType(t) == pkgHS+".State" }
	followModule := func(callee *ssa.Function) bool { return inModule(callee) }
	n := 0
	for _, v := range []struct{ fsm, fpkg string }{{"fsm12", pkgF12}, {"fsm13", pkgF13}} {
		tbl := c.generatorTable(r, rule, v.fpkg)
		flights := c.enumConsts(v.fpkg, "Flight")
		if tbl == nil || len(flights) == 0 {
			continue
		}
		var cookie []string
		for name, row := range tbl {
			if row.retransmit == vBool(false) {
				cookie = append(cookie, name)
			}
		}
		sort.Strings(cookie)
		if len(cookie) == 0 {
			r.Unk(rule, v.fsm, "", "no non-retransmittable flight in the generator table")
			continue
		}
		for _, fn := range c.Fns {
			if fn.Signature.Recv() == nil || fn.Parent() != nil || fn.Synthetic != "" {
				continue
			}
			if namedOrType(fn.Signature.Recv().Type()) != pkgHS+"."+v.fsm || len(fn.Blocks) == 0 {
				continue
			}
			// only functions that yield a state
			yields := false
			res := fn.Signature.Results()
			for i := 0; i < res.Len(); i++ {
				t := res.At(i).Type()
				if isStateT(t) || strings.HasSuffix(namedOrType(t), "receivedFlightTransition") {
					yields = true
				}
			}
			if !yields || fn.Name() == "prepare" {
				continue
			}
			r.Sites += len(fn.Blocks)
			// a parameter that only ever receives "the peer repeated a handshake message" (the
			// IsRetransmit flag of the received state, or a constant)
			peerFlag := map[*ssa.Parameter]bool{}
			for _, p := range fn.Params {
				if bt, ok := p.Type().Underlying().(*types.Basic); !ok || bt.Kind() != types.Bool {
					continue
				}
				sites := c.CallsToName(short(fn))
				all := len(sites) > 0
				for _, cs := range sites {
					cc, ok := cs.Call.(*ssa.Call)
					idx := paramIndex(p)
					if !ok || idx >= len(cc.Call.Args) {
						all = false
						continue
					}
					a := cc.Call.Args[idx]
					// directly, or handed down through a parameter of the calling helper
					if !c.allResolved(a, func(x ssa.Value) bool {
						if _, isK := x.(*ssa.Const); isK {
							return true
						}
						_, f, _, ok := fieldLoad(x)
						return ok && f == "IsRetransmit"
					}) {
						all = false
					}
				}
				if all {
					peerFlag[p] = true
				}
			}
			loadsHasHandshake := false
			for _, b := range fn.Blocks {
				for _, in := range b.Instrs {
					if u, ok := in.(ssa.Value); ok {
						if _, f, _, ok := fieldLoad(u); ok && f == "HasHandshake" {
							loadsHasHandshake = true
						}
					}
				}
			}
			for _, ck := range cookie {
				fv := flights[ck]
				base := func(x ssa.Value) (Val, bool) {
					if o, f, _, ok := fieldLoad(x); ok && o == pkgHS+"."+v.fsm {
						switch f {
						case "retransmit":
							return vBool(false), true
						case "currentFlight":
							return vInt(fv), true
						}
					}
					return unknown, false
				}
				// (i) no repeated handshake message of the peer is involved
				w := &Walk{Fn: fn, Follow: followModule, Assume: func(x ssa.Value) (Val, bool) {
					if val, ok := base(x); ok {
						return val, true
					}
					if p, ok := x.(*ssa.Parameter); ok && peerFlag[p] {
						return vBool(false), true
					}
					if _, f, _, ok := fieldLoad(x); ok && f == "IsRetransmit" {
						return vBool(false), true
					}
					return unknown, false
				}}
				at := producesState(w, fn, isStateT, sending)
				// (ii) the received state carries no handshake record at all (an ACK, whatever its
				// retransmission flag says)
				if at == nil && loadsHasHandshake {
					w2 := &Walk{Fn: fn, Follow: followModule, Assume: func(x ssa.Value) (Val, bool) {
						if val, ok := base(x); ok {
							return val, true
						}
						if _, f, _, ok := fieldLoad(x); ok && f == "HasHandshake" {
							return vBool(false), true
						}
						return unknown, false
					}}
					at = producesState(w2, fn, isStateT, sending)
				}
				// (iii) whatever was retransmitted, it was not the peer's ClientHello: an old record of
				// another type (a stray Finished with a small message sequence) is no reason either
				if at == nil {
					w3 := &Walk{Fn: fn, Follow: followModule, Assume: func(x ssa.Value) (Val, bool) {
						if val, ok := base(x); ok {
							return val, true
						}
						if _, f, _, ok := fieldLoad(x); ok && (f == "RepeatsHello" || f == "peerRepeatedHello") {
							return vBool(false), true
						}
						return unknown, false
					}}
					at = producesState(w3, fn, isStateT, sending)
				}
				n++
				pos := c.pos(fn.Pos())
				if at != nil {
					pos = c.ipos(at)
				}
				r.Check(at == nil, rule, fmt.Sprintf("%s:%s", short(fn), ck), pos, "no re-send of the cookie request from this handler unless the peer repeated its ClientHello", fmt.Sprintf("%s can switch to StateSending while the state machine sits in the non-retransmittable %s (the cookie request) although the peer did not repeat its ClientHello (a timer, an acknowledgement, an empty ACK, an old record of another type): something other than a ClientHello draws another cookie request from a server that has verified nothing", short(fn), ck))
			}
		}
	}
	r.Floor(rule, n, 4)
}

// ruleNoUnparsableFlight13 (C02): the DTLS 1.3 state machine never hands a received handshake
// record to the flight parser while it sits in a flight that has no parser: that path ends in a
// fatal internal error. A flight without a parser is one in which only an acknowledgement is
// awaited (the client's last flight); what can still arrive there is a retransmission of the peer's
// previous flight, or - when the acknowledgement was lost - the peer's first post-handshake
// message, which acknowledges the flight implicitly (RFC 9147 7.1). Decided per flight constant:
// the parser registry is evaluated for the constant, and the receive handler is explored with the
// current flight bound to it and a handshake record present.
func ruleNoUnparsableFlight13(c *Ctx, r *Report) {
	const rule = "no-unparsable-flight"
	flights := c.enumConsts(pkgF13, "Flight")
	reg := c.need(r, rule, pkgF13+".Parse")
	recv := c.need(r, rule, "(*"+pkgHS+".fsm13).handleReceivedFlight")
	if reg == nil || recv == nil || len(flights) == 0 {
		return
	}
	followModule := func(callee *ssa.Function) bool { return inModule(callee) }
	var flightParam *ssa.Parameter
	for _, p := range reg.Params {
		if strings.HasSuffix(namedOrType(p.Type()), "internal/flight/flight13.Flight") {
			flightParam = p
		}
	}
	if flightParam == nil {
		r.Unk(rule, short(reg), c.pos(reg.Pos()), "no Flight parameter")
		return
	}
	n := 0
	for _, name := range sortedKeys(flights) {
		fv := flights[name]
		// does the registry know a parser for this flight? (the last result of Parse)
		w := &Walk{Fn: reg, Follow: followSamePkg(reg), Assume: func(v ssa.Value) (Val, bool) {
			if v == ssa.Value(flightParam) {
				return vInt(fv), true
			}
			return unknown, false
		}}
		w.FromEntry()
		has, hasNot := false, false
		for _, ro := range w.Returns {
			last := len(ro.Raw) - 1
			if last >= 0 {
				if k, isK := constBool(ro.Raw[last]); isK {
					if k {
						has = true
					} else {
						hasNot = true
					}
					continue
				}
				if ro.Vals[last].Kind == 1 {
					if ro.Vals[last].B {
						has = true
					} else {
						hasNot = true
					}
					continue
				}
			}
			has, hasNot = true, true
		}
		if has == hasNot {
			r.Unk(rule, name+":registry", c.pos(reg.Pos()), "cannot decide whether the flight has a parser")
			continue
		}
		if has {
			continue
		}
		n++
		r.Sites += len(recv.Blocks)
		w2 := &Walk{Fn: recv, Follow: followModule, FollowDeferring: true, Assume: func(v ssa.Value) (Val, bool) {
			if _, f, _, ok := fieldLoad(v); ok {
				switch f {
				case "currentFlight":
					return vInt(fv), true
				case "HasHandshake":
					return vBool(true), true
				}
			}
			return unknown, false
		}}
		w2.FromEntry()
		var at ssa.Instruction
		for in := range w2.Reached {
			if cl, ok := in.(*ssa.Call); ok && strings.HasSuffix(calleeName(&cl.Call), "flight13.Parse") {
				if at == nil || in.Pos() < at.Pos() {
					at = in
				}
			}
		}
		pos := c.pos(recv.Pos())
		if at != nil {
			pos = c.ipos(at)
		}
		r.Check(at == nil, rule, short(recv)+":"+name, pos, "a handshake record received in "+name+" (no parser) never reaches the flight parser", "a handshake record received while the state machine is in "+name+", which has no parser, is handed to the flight parser: the endpoint answers with a fatal internal error. After a lost final acknowledgement the peer's first post-handshake message (the session ticket) kills a handshake that both sides had completed")
	}
	r.Floor(rule, n, 1)
}
