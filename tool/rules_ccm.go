package main

import (
	"fmt"

	"golang.org/x/tools/go/ssa"
)

// ruleCCMAdataCoverage: the in-repository CCM (RFC 3610) authenticates the additional data in two
// pieces: the part that fits the first block after the length prefix, and the rest. The record
// header fields (epoch, sequence number, connection ID ...) are protected only if the two pieces
// tile the additional data exactly: the continuation starts at the number of bytes the first block
// took. The known-answer vectors in the suite never exceed the first block.
func ruleCCMAdataCoverage(c *Ctx, r *Report) {
	const rule = "ccm-adata-coverage"
	seal := c.need(r, rule, "(*pkg/crypto/ccm.ccm).Seal")
	open := c.need(r, rule, "(*pkg/crypto/ccm.ccm).Open")
	if seal == nil || open == nil {
		return
	}
	// the MAC function and which of its parameters is the additional data: taken from the AEAD
	// entry points (whose 4th argument is the additional data by the cipher.AEAD contract)
	type tagUse struct {
		fn    *ssa.Function
		adata *ssa.Parameter
	}
	var uses []tagUse
	for _, ep := range []*ssa.Function{seal, open} {
		r.Sites += len(ep.Blocks)
		ad := ep.Params[4] // receiver, dst, nonce, text, adata
		found := false
		for _, call := range findCalls(ep, func(string) bool { return true }) {
			callee := call.Call.StaticCallee()
			if callee == nil || !inModule(callee) || len(callee.Blocks) == 0 {
				continue
			}
			for i, a := range call.Call.Args {
				if a == ssa.Value(ad) && i < len(callee.Params) {
					uses = append(uses, tagUse{callee, callee.Params[i]})
					found = true
				}
			}
		}
		r.Check(found, rule, short(ep)+":adata-to-mac", c.pos(ep.Pos()), "the additional data is handed to the MAC computation", "the additional data of "+short(ep)+" does not reach the MAC computation")
	}
	seen := map[*ssa.Function]bool{}
	for _, u := range uses {
		if seen[u.fn] {
			continue
		}
		seen[u.fn] = true
		fn, ad := u.fn, u.adata
		r.Sites += len(fn.Blocks)
		var copies []*ssa.Call
		var slices []*ssa.Slice
		other := 0
		for _, ref := range *ad.Referrers() {
			switch x := ref.(type) {
			case *ssa.Call:
				if b, ok := x.Call.Value.(*ssa.Builtin); ok {
					switch b.Name() {
					case "copy":
						if len(x.Call.Args) == 2 && x.Call.Args[1] == ssa.Value(ad) {
							copies = append(copies, x)
							continue
						}
					case "len":
						continue
					}
				}
				other++
			case *ssa.Slice:
				slices = append(slices, x)
			case *ssa.DebugRef:
			default:
				other++
			}
		}
		cons := short(fn)
		if len(copies) == 1 && len(slices) >= 1 && other == 0 {
			cp := copies[0]
			// first piece: copied behind the length prefix of a fresh block, which is then absorbed
			dst, _ := cp.Call.Args[0].(*ssa.Slice)
			r.Check(dst != nil && dst.High == nil, rule, cons+":first-piece", c.ipos(cp), "first piece fills the rest of the first block", "the first piece of the additional data is not copied into the open end of the first block")
			for _, sl := range slices {
				lowIsCopied := sl.Low != nil && allLeaves(c.Origins(sl.Low, 0), func(l ssa.Value) bool { return l == ssa.Value(cp) })
				r.Check(lowIsCopied && sl.High == nil, rule, cons+":continuation", c.ipos(sl), "continuation = adata[n:], n = bytes taken by the first block", fmt.Sprintf("the continuation of the additional data is %s, not adata[n:] with n the number of bytes the first block took: bytes of the record header drop out of (or enter twice into) the CCM tag once the additional data exceeds the first block (connection IDs)", shapeOf(sl, 1)))
				// the continuation is absorbed after the first block
				absorbed := false
				for _, ref := range *sl.Referrers() {
					if call, ok := ref.(*ssa.Call); ok && call.Call.StaticCallee() != nil && instrDominates(cp, call) {
						absorbed = true
					}
				}
				r.Check(absorbed, rule, cons+":continuation-absorbed", c.ipos(sl), "continuation is absorbed after the first block", "the continuation of the additional data is not absorbed into the MAC after the first block")
			}
		} else if len(copies) == 0 && len(slices) == 0 && other > 0 {
			// whole additional data handed on (a helper does the split): accept only in-module callees
			r.Note(rule, cons+":delegated", c.pos(fn.Pos()), "additional data handed on whole; split not inspected")
		} else {
			r.Unk(rule, cons, c.pos(fn.Pos()), fmt.Sprintf("unrecognised handling of the additional data (%d copies, %d slices, %d other uses)", len(copies), len(slices), other))
		}
	}
}
