package main

import (
	"fmt"
	"go/constant"
	"go/token"
	"go/types"
	"sort"
	"strings"

	"golang.org/x/tools/go/ssa"
)

// ---------- naming / matching ----------

// typeShort renders a type with the module path shortened.
func typeShort(t types.Type) string {
	s := t.String()
	s = strings.ReplaceAll(s, modPath+"/", "")
	s = strings.ReplaceAll(s, modPath+".", "dtls.")
	if len(aliasType) > 0 {
		s = aliasedTypeNames(s)
	}
	return s
}

func derefType(t types.Type) types.Type {
	if p, ok := t.Underlying().(*types.Pointer); ok {
		return p.Elem()
	}
	return t
}

// namedOf returns "pkgrel.Name" of a (pointer to) named type, or "".
func namedOf(t types.Type) string {
	t = derefType(t)
	if a, ok := t.(*types.Alias); ok {
		t = types.Unalias(a)
	}
	n, ok := t.(*types.Named)
	if !ok {
		return ""
	}
	if n.Obj().Pkg() == nil {
		return n.Obj().Name()
	}
	return shortPath(n.Obj().Pkg().Path()) + "." + typeNameOf(n.Obj())
}

// calleeName gives a stable name for the target of a call:
// static: short function name; interface: "iface:<pkgrel.Iface>.<Method>";
// builtin: "builtin:<name>"; dynamic closure value: "dynamic".
func calleeName(cc *ssa.CallCommon) string {
	if cc.IsInvoke() {
		return "iface:" + namedOrType(cc.Value.Type()) + "." + cc.Method.Name()
	}
	switch v := cc.Value.(type) {
	case *ssa.Function:
		return short(v)
	case *ssa.Builtin:
		return "builtin:" + v.Name()
	case *ssa.MakeClosure:
		if f, ok := v.Fn.(*ssa.Function); ok {
			return short(f)
		}
	}
	return "dynamic"
}

func namedOrType(t types.Type) string {
	if n := namedOf(t); n != "" {
		return n
	}
	return typeShort(t)
}

// Site is a call site.
type Site struct {
	Fn   *ssa.Function // enclosing
	Call ssa.CallInstruction
	Name string
}

// CallsTo returns all call sites (call, go, defer) in module functions whose callee name satisfies match.
func (c *Ctx) CallsTo(match func(name string) bool) []Site {
	var out []Site
	for _, fn := range c.Fns {
		for _, b := range fn.Blocks {
			for _, in := range b.Instrs {
				ci, ok := in.(ssa.CallInstruction)
				if !ok {
					continue
				}
				n := calleeName(ci.Common())
				if match(n) {
					out = append(out, Site{fn, ci, n})
				}
			}
		}
	}
	return out
}

func (c *Ctx) CallsToName(names ...string) []Site {
	return c.CallsTo(func(n string) bool {
		for _, x := range names {
			if n == x {
				return true
			}
		}
		return false
	})
}

// callsIn returns call sites inside fn (not its closures) matching names.
func callsIn(fn *ssa.Function, match func(string) bool) []ssa.CallInstruction {
	var out []ssa.CallInstruction
	if fn == nil {
		return nil
	}
	for _, b := range fn.Blocks {
		for _, in := range b.Instrs {
			if ci, ok := in.(ssa.CallInstruction); ok && match(calleeName(ci.Common())) {
				out = append(out, ci)
			}
		}
	}
	return out
}

func nameIs(names ...string) func(string) bool {
	return func(n string) bool {
		for _, x := range names {
			if n == x {
				return true
			}
		}
		return false
	}
}

func nameHasSuffix(sfx ...string) func(string) bool {
	return func(n string) bool {
		for _, x := range sfx {
			if strings.HasSuffix(n, x) {
				return true
			}
		}
		return false
	}
}

// withClosures returns fn and all anonymous functions nested in it.
func withClosures(fn *ssa.Function) []*ssa.Function {
	if fn == nil {
		return nil
	}
	out := []*ssa.Function{fn}
	for _, a := range fn.AnonFuncs {
		out = append(out, withClosures(a)...)
	}
	return out
}

// ---------- field access ----------

// fieldOfAddr: if v is &x.F returns (owner named type "pkgrel.T", field name, base).
func fieldOfAddr(v ssa.Value) (owner, field string, base ssa.Value, ok bool) {
	fa, isFA := v.(*ssa.FieldAddr)
	if !isFA {
		return "", "", nil, false
	}
	st, _ := derefType(fa.X.Type()).Underlying().(*types.Struct)
	if st == nil {
		return "", "", nil, false
	}
	return namedOrType(derefType(fa.X.Type())), fieldName(st.Field(fa.Field)), fa.X, true
}

// fieldLoad: if v is a load x.F (through FieldAddr+deref or Field) returns owner, field, base.
func fieldLoad(v ssa.Value) (owner, field string, base ssa.Value, ok bool) {
	switch x := v.(type) {
	case *ssa.UnOp:
		if x.Op == token.MUL {
			return fieldOfAddr(x.X)
		}
	case *ssa.Field:
		st, _ := x.X.Type().Underlying().(*types.Struct)
		if st == nil {
			return "", "", nil, false
		}
		return namedOrType(x.X.Type()), fieldName(st.Field(x.Field)), x.X, true
	}
	return "", "", nil, false
}

func isFieldLoad(v ssa.Value, owner, field string) bool {
	o, f, _, ok := fieldLoad(v)
	return ok && o == owner && f == field
}

// FieldStore is a store to a struct field (direct store, or a composite literal initialisation).
type FieldStore struct {
	Fn    *ssa.Function
	Instr ssa.Instruction
	Val   ssa.Value
	Base  ssa.Value
	Via   *ssa.Function // set by liftParamStores: the helper that performs the store with its parameter
}

// liftParamStores judges a store of a helper's parameter where the value is known: a store
// `x.F = p` in an unexported helper all of whose callers are static calls is replaced by one entry
// per call site (enclosing function, the call as the instruction, the argument as the value), up
// to two levels. The store happens only if the call is reached, so what guards the call guards
// the store.
func (c *Ctx) liftParamStores(stores []FieldStore) []FieldStore {
	var out []FieldStore
	var lift func(st FieldStore, d int)
	lift = func(st FieldStore, d int) {
		p, isP := unspill(st.Val).(*ssa.Parameter)
		if !isP || d > 2 || p.Parent() != st.Fn || st.Fn.Parent() != nil {
			out = append(out, st)
			return
		}
		sites, complete := c.staticCallers(st.Fn)
		if !complete || len(sites) == 0 {
			out = append(out, st)
			return
		}
		idx := paramIndex(p)
		for _, s := range sites {
			call, isCall := s.Call.(*ssa.Call)
			if !isCall || idx < 0 || idx >= len(call.Call.Args) {
				out = append(out, st)
				return
			}
		}
		via := st.Via
		if via == nil {
			via = st.Fn
		}
		for _, s := range sites {
			call := s.Call.(*ssa.Call)
			lift(FieldStore{Fn: s.Fn, Instr: call, Val: call.Call.Args[idx], Via: via}, d+1)
		}
	}
	for _, st := range stores {
		lift(st, 0)
	}
	return out
}

// StoresTo finds every Store instruction in the module whose address is &T.F for owner type T.
// Composite literals `T{F: v}` and `&T{F: v}` are lowered by go/ssa to an Alloc plus
// FieldAddr stores, so they are covered.
func (c *Ctx) StoresTo(owner, field string) []FieldStore {
	var out []FieldStore
	for _, fn := range c.Fns {
		for _, b := range fn.Blocks {
			for _, in := range b.Instrs {
				st, ok := in.(*ssa.Store)
				if !ok {
					continue
				}
				o, f, base, ok := fieldOfAddr(st.Addr)
				if ok && o == owner && f == field {
					out = append(out, FieldStore{Fn: fn, Instr: st, Val: st.Val, Base: base})
				}
			}
		}
	}
	return out
}

// AddrTakenOf finds places where &T.F escapes as a value other than to a direct load/store
// (passed to a call, stored, appended): those are potential writers too.
func (c *Ctx) AddrUses(owner, field string) []FieldStore {
	var out []FieldStore
	for _, fn := range c.Fns {
		for _, b := range fn.Blocks {
			for _, in := range b.Instrs {
				fa, ok := in.(*ssa.FieldAddr)
				if !ok {
					continue
				}
				o, f, base, ok := fieldOfAddr(fa)
				if !ok || o != owner || f != field {
					continue
				}
				for _, ref := range *fa.Referrers() {
					switch r := ref.(type) {
					case *ssa.Store:
						if r.Addr == fa {
							continue
						}
					case *ssa.UnOp:
						if r.Op == token.MUL {
							continue
						}
					case *ssa.DebugRef:
						continue
					}
					out = append(out, FieldStore{Fn: fn, Instr: ref, Base: base})
				}
			}
		}
	}
	return out
}

// ---------- constants ----------

func isNilConst(v ssa.Value) bool {
	c, ok := v.(*ssa.Const)
	return ok && c.Value == nil && !isBasicNonNil(c.Type())
}

func isBasicNonNil(t types.Type) bool {
	// zero value consts of basic types have Value == nil only for nil-able types;
	// go/ssa represents zero struct/array as Const with nil Value too.
	switch t.Underlying().(type) {
	case *types.Struct, *types.Array:
		return true
	}
	return false
}

// constOverride gives loop counters a value while a counted loop is unrolled symbolically
// (layout extraction); empty otherwise.
var constOverride map[ssa.Value]int64

func constInt(v ssa.Value) (int64, bool) {
	if len(constOverride) > 0 {
		if k, ok := constOverride[v]; ok {
			return k, true
		}
		if k, ok := constOverride[stripConv(v)]; ok {
			return k, true
		}
	}
	c, ok := v.(*ssa.Const)
	if !ok || c.Value == nil {
		return 0, false
	}
	if c.Value.Kind() != constant.Int {
		return 0, false
	}
	i, ok := constant.Int64Val(c.Value)
	return i, ok
}

func constBool(v ssa.Value) (bool, bool) {
	c, ok := v.(*ssa.Const)
	if !ok || c.Value == nil || c.Value.Kind() != constant.Bool {
		return false, false
	}
	return constant.BoolVal(c.Value), true
}

func constString(v ssa.Value) (string, bool) {
	c, ok := v.(*ssa.Const)
	if !ok || c.Value == nil || c.Value.Kind() != constant.String {
		return "", false
	}
	return constant.StringVal(c.Value), true
}

// ---------- dominance / reachability ----------

func instrIndex(in ssa.Instruction) int {
	for i, x := range in.Block().Instrs {
		if x == in {
			return i
		}
	}
	return -1
}

// instrDominates: a executes before b on every path from entry to b.
func instrDominates(a, b ssa.Instruction) bool {
	if a.Block() == b.Block() {
		return instrIndex(a) < instrIndex(b)
	}
	return a.Block().Dominates(b.Block())
}

var passCache = map[ssa.Instruction]*Walk{}

// mustPass: every feasible path from the function entry to b executes a first. Dominance
// decides most cases; otherwise the function is explored with the paths cut at a (what a earlier
// test on the way learnt about a value - an error that is already non-nil - decides later tests
// of it), and b must not be reached.
func mustPass(a, b ssa.Instruction) bool {
	if a.Parent() != b.Parent() {
		return false
	}
	if instrDominates(a, b) {
		return true
	}
	w, ok := passCache[a]
	if !ok {
		w = &Walk{Fn: a.Parent()}
		w.Visit = func(in ssa.Instruction, _ Env) bool { return in != a }
		w.FromEntry()
		passCache[a] = w
	}
	return !w.overflow && !w.Reached[b]
}

// reachableFrom returns the set of blocks reachable from the given blocks (inclusive).
func reachableFrom(starts ...*ssa.BasicBlock) map[*ssa.BasicBlock]bool {
	seen := map[*ssa.BasicBlock]bool{}
	var st []*ssa.BasicBlock
	st = append(st, starts...)
	for len(st) > 0 {
		b := st[len(st)-1]
		st = st[:len(st)-1]
		if seen[b] {
			continue
		}
		seen[b] = true
		st = append(st, b.Succs...)
	}
	return seen
}

// instrReaches: can control flow from just after a to b?
func instrReaches(a, b ssa.Instruction) bool {
	if a.Block() == b.Block() && instrIndex(a) < instrIndex(b) {
		return true
	}
	r := reachableFrom(a.Block().Succs...)
	return r[b.Block()]
}

// ---------- value origins (E4, provenance) ----------

// Origins computes the set of leaf values a value derives from by following
// Phi, conversions, Extract, slicing, MakeInterface, local Alloc cells, field
// loads forwarded from a unique dominating store in the same function, and
// (up to depth) the returns of statically resolved module callees.
type originOpts struct {
	depth      int  // callee inlining bound
	throughOps bool // also follow BinOp operands and call arguments of pure helpers
}

type originSet struct {
	leaves []ssa.Value
	seen   map[ssa.Value]bool
}

func (c *Ctx) Origins(v ssa.Value, depth int) []ssa.Value {
	os := &originSet{seen: map[ssa.Value]bool{}}
	c.origins(v, depth, os)
	return os.leaves
}

func (c *Ctx) origins(v ssa.Value, depth int, os *originSet) {
	if v == nil || os.seen[v] {
		return
	}
	os.seen[v] = true
	switch x := v.(type) {
	case *ssa.Phi:
		for _, e := range x.Edges {
			c.origins(e, depth, os)
		}
		return
	case *ssa.ChangeType:
		c.origins(x.X, depth, os)
		return
	case *ssa.Convert:
		c.origins(x.X, depth, os)
		return
	case *ssa.ChangeInterface:
		c.origins(x.X, depth, os)
		return
	case *ssa.MakeInterface:
		c.origins(x.X, depth, os)
		return
	case *ssa.SliceToArrayPointer:
		c.origins(x.X, depth, os)
		return
	case *ssa.Slice:
		c.origins(x.X, depth, os)
		return
	case *ssa.TypeAssert:
		c.origins(x.X, depth, os)
		return
	case *ssa.Extract:
		// tuple result: keep (call, index) as the leaf unless we can inline
		if call, ok := x.Tuple.(*ssa.Call); ok {
			if c.inlineReturns(call, x.Index, depth, os) {
				return
			}
		}
		if ta, ok := x.Tuple.(*ssa.TypeAssert); ok && x.Index == 0 {
			c.origins(ta.X, depth, os)
			return
		}
		os.leaves = append(os.leaves, v)
		return
	case *ssa.Call:
		switch calleeName(&x.Call) {
		case "bytes.Clone", "slices.Clone[[]byte]", "slices.Clone[[]uint64]", "internal/util.CloneByteSlices":
			// value-preserving copies
			c.origins(x.Call.Args[0], depth, os)
			return
		}
		if c.inlineReturns(x, 0, depth, os) {
			return
		}
		os.leaves = append(os.leaves, v)
		return
	case *ssa.UnOp:
		if x.Op == token.MUL {
			// load
			if al, ok := x.X.(*ssa.Alloc); ok {
				// local cell: union of all stored values
				found := false
				for _, ref := range *al.Referrers() {
					if st, ok := ref.(*ssa.Store); ok && st.Addr == al {
						c.origins(st.Val, depth, os)
						found = true
					}
				}
				if found {
					return
				}
			}
			if fv, ok := x.X.(*ssa.FreeVar); ok {
				// variable captured by reference: the cell lives in the enclosing function
				fn := fv.Parent()
				idx := -1
				for i, f := range fn.FreeVars {
					if f == fv {
						idx = i
					}
				}
				found := false
				if fn.Parent() != nil && idx >= 0 {
					for _, b := range fn.Parent().Blocks {
						for _, in := range b.Instrs {
							mc, ok := in.(*ssa.MakeClosure)
							if !ok || mc.Fn != fn || idx >= len(mc.Bindings) {
								continue
							}
							if al, ok := mc.Bindings[idx].(*ssa.Alloc); ok {
								for _, ref := range *al.Referrers() {
									if st, ok := ref.(*ssa.Store); ok && st.Addr == al {
										c.origins(st.Val, depth, os)
										found = true
									}
								}
							}
						}
					}
				}
				if found {
					return
				}
			}
			if ia, ok := x.X.(*ssa.IndexAddr); ok {
				// element of array/slice: derive from the container
				c.origins(ia.X, depth, os)
				return
			}
			if _, _, base, ok := fieldOfAddr(x.X); ok {
				if sv := forwardedStore(x, base); sv != nil && sv != v {
					c.origins(sv, depth, os)
					return
				}
			}
			os.leaves = append(os.leaves, v)
			return
		}
		if x.Op == token.SUB || x.Op == token.XOR || x.Op == token.NOT {
			c.origins(x.X, depth, os)
			return
		}
	case *ssa.FreeVar:
		// closure capture: follow the binding at the MakeClosure sites
		fn := x.Parent()
		idx := -1
		for i, fv := range fn.FreeVars {
			if fv == x {
				idx = i
			}
		}
		if fn.Parent() != nil && idx >= 0 {
			bound := false
			for _, b := range fn.Parent().Blocks {
				for _, in := range b.Instrs {
					if mc, ok := in.(*ssa.MakeClosure); ok && mc.Fn == fn && idx < len(mc.Bindings) {
						c.origins(mc.Bindings[idx], depth, os)
						bound = true
					}
				}
			}
			if bound {
				return
			}
		}
	}
	os.leaves = append(os.leaves, v)
}

// accessPath renders an address as root value + selector path, looking through
// reloads of intermediate pointers: &pkt.Record.Header.SequenceNumber ->
// (param pkt, ".Record*.Header.SequenceNumber").
func accessPath(addr ssa.Value) (root ssa.Value, path string) {
	switch x := addr.(type) {
	case *ssa.FieldAddr:
		st, _ := derefType(x.X.Type()).Underlying().(*types.Struct)
		r, p := accessPath(x.X)
		name := "?"
		if st != nil {
			name = fieldName(st.Field(x.Field))
		}
		return r, p + "." + name
	case *ssa.UnOp:
		if x.Op == token.MUL {
			if _, isAlloc := x.X.(*ssa.Alloc); !isAlloc {
				r, p := accessPath(x.X)
				return r, p + "*"
			}
		}
	case *ssa.IndexAddr:
		if k, ok := constInt(x.Index); ok {
			r, p := accessPath(x.X)
			return r, fmt.Sprintf("%s[%d]", p, k)
		}
	case *ssa.ChangeType:
		return accessPath(x.X)
	}
	return addr, ""
}

// forwardedStore: for a load from address A, if the enclosing function contains
// exactly one store to the same access path (same root value, same selector
// path), it dominates the load, and no store to an overlapping path (a prefix
// or extension of it) can execute between that store and the load (CFG
// reachability), return the stored value. Side effects of callees on the path are
// covered separately by the who-may-write rules.
func forwardedStore(load *ssa.UnOp, _ ssa.Value) ssa.Value {
	root, path := accessPath(load.X)
	if path == "" {
		return nil
	}
	fn := load.Parent()
	var same []*ssa.Store
	var overlapping []*ssa.Store
	for _, b := range fn.Blocks {
		for _, in := range b.Instrs {
			st, ok := in.(*ssa.Store)
			if !ok {
				continue
			}
			r2, p2 := accessPath(st.Addr)
			if r2 != root || p2 == "" {
				continue
			}
			if p2 == path {
				same = append(same, st)
			} else if strings.HasPrefix(path, p2) || strings.HasPrefix(p2, path) {
				overlapping = append(overlapping, st)
			}
		}
	}
	if len(same) != 1 || !instrDominates(same[0], load) {
		return nil
	}
	for _, o := range overlapping {
		// an overlapping store matters only if it can execute between the store and the load
		if instrReaches(same[0], o) && instrReaches(o, load) {
			return nil
		}
	}
	return same[0].Val
}

func (c *Ctx) inlineReturns(call *ssa.Call, idx int, depth int, os *originSet) bool {
	if depth <= 0 {
		return false
	}
	callee := call.Call.StaticCallee()
	if callee == nil || callee.Blocks == nil || !inModule(callee) {
		return false
	}
	// substitute parameters by arguments: handled by treating Parameter leaves of callee
	// as origins of the corresponding argument.
	sub := &originSet{seen: map[ssa.Value]bool{}}
	for _, b := range callee.Blocks {
		if r, ok := b.Instrs[len(b.Instrs)-1].(*ssa.Return); ok && idx < len(r.Results) {
			c.origins(r.Results[idx], depth-1, sub)
		}
	}
	for _, l := range sub.leaves {
		if p, ok := l.(*ssa.Parameter); ok && p.Parent() == callee {
			for i, q := range callee.Params {
				if q == p && i < len(call.Call.Args) {
					c.origins(call.Call.Args[i], depth, os)
				}
			}
			continue
		}
		if !os.seen[l] {
			os.seen[l] = true
			os.leaves = append(os.leaves, l)
		}
	}
	return true
}

// describe renders a leaf value for reports.
func (c *Ctx) describe(v ssa.Value) string {
	switch x := v.(type) {
	case *ssa.Const:
		return "const " + x.String()
	case *ssa.Parameter:
		return "param " + x.Name()
	case *ssa.Call:
		return "call " + calleeName(&x.Call)
	case *ssa.Extract:
		if call, ok := x.Tuple.(*ssa.Call); ok {
			return fmt.Sprintf("result#%d of %s", x.Index, calleeName(&call.Call))
		}
		return "extract " + x.String()
	case *ssa.UnOp:
		if o, f, _, ok := fieldLoad(x); ok {
			return "load " + o + "." + f
		}
	case *ssa.Field:
		if o, f, _, ok := fieldLoad(x); ok {
			return "load " + o + "." + f
		}
	case *ssa.Global:
		return "global " + x.Name()
	case *ssa.Alloc:
		return "alloc " + typeShort(x.Type())
	case *ssa.MakeSlice:
		return "make " + typeShort(x.Type())
	case *ssa.Function:
		return "func " + short(x)
	}
	return fmt.Sprintf("%T %s", v, v.String())
}

func (c *Ctx) describeAll(vs []ssa.Value) string {
	var s []string
	for _, v := range vs {
		s = append(s, c.describe(v))
	}
	sort.Strings(s)
	return strings.Join(dedup(s), ", ")
}

func dedup(s []string) []string {
	var out []string
	for i, x := range s {
		if i == 0 || x != s[i-1] {
			out = append(out, x)
		}
	}
	return out
}

// isCallResult: v is (a result of) a call whose callee name satisfies match.
func isCallResult(v ssa.Value, match func(string) bool) bool {
	switch x := v.(type) {
	case *ssa.Call:
		return match(calleeName(&x.Call))
	case *ssa.Extract:
		if call, ok := x.Tuple.(*ssa.Call); ok {
			return match(calleeName(&call.Call))
		}
	}
	return false
}

// allLeaves reports whether every leaf satisfies pred (and there is at least one).
func allLeaves(ls []ssa.Value, pred func(ssa.Value) bool) bool {
	if len(ls) == 0 {
		return false
	}
	for _, l := range ls {
		if !pred(l) {
			return false
		}
	}
	return true
}

func anyLeaf(ls []ssa.Value, pred func(ssa.Value) bool) bool {
	for _, l := range ls {
		if pred(l) {
			return true
		}
	}
	return false
}

// resultValue returns the SSA value holding result #idx of a call (the call itself
// for single results, the Extract otherwise); nil if unused.
func resultValue(call *ssa.Call, idx int) ssa.Value {
	sig := call.Call.Signature()
	if sig.Results().Len() == 1 {
		if idx == 0 {
			return call
		}
		return nil
	}
	for _, ref := range *call.Referrers() {
		if ex, ok := ref.(*ssa.Extract); ok && ex.Index == idx {
			return ex
		}
	}
	return nil
}

func isErrorType(t types.Type) bool {
	n, ok := t.(*types.Named)
	return ok && n.Obj().Pkg() == nil && n.Obj().Name() == "error"
}

// callArg returns the i-th source-level argument (skipping the receiver for static method calls).
func callArg(cc *ssa.CallCommon, i int) ssa.Value {
	args := cc.Args
	if !cc.IsInvoke() {
		if f := cc.StaticCallee(); f != nil && f.Signature.Recv() != nil {
			args = args[1:]
		}
	}
	if i < len(args) {
		return args[i]
	}
	return nil
}

// ReachableFuncs returns the functions reachable from roots over the CHA call graph
// (module functions only are expanded).
func (c *Ctx) ReachableFuncs(roots ...*ssa.Function) map[*ssa.Function]bool {
	cg := c.CG()
	seen := map[*ssa.Function]bool{}
	work := append([]*ssa.Function{}, roots...)
	for len(work) > 0 {
		f := work[len(work)-1]
		work = work[:len(work)-1]
		if f == nil || seen[f] {
			continue
		}
		seen[f] = true
		if !inModule(f) {
			continue
		}
		for _, a := range f.AnonFuncs {
			work = append(work, a)
		}
		if n := cg.Nodes[f]; n != nil {
			for _, e := range n.Out {
				work = append(work, e.Callee.Func)
			}
		}
	}
	return seen
}

// unspill resolves a load of a local cell that was stored earlier in the same block
// (go/ssa spills named/deferred results: `*t1 = v; rundefers; t9 = *t1; return t9`).
func unspill(v ssa.Value) ssa.Value {
	for i := 0; i < 4; i++ {
		u, ok := v.(*ssa.UnOp)
		if !ok || u.Op != token.MUL {
			return v
		}
		al, ok := u.X.(*ssa.Alloc)
		if !ok {
			return v
		}
		var last ssa.Value
		for _, in := range u.Block().Instrs {
			if in == ssa.Instruction(u) {
				break
			}
			if st, ok := in.(*ssa.Store); ok && st.Addr == al {
				last = st.Val
			}
		}
		if last == nil {
			return v
		}
		v = last
	}
	return v
}

// cellValue resolves a load of a private local cell (a named result, a variable of a function
// with defers) to the value of the store that reaches it: the store dominates the load and no
// other store to the cell lies between the two. Anything else is returned unchanged.
func cellValue(v ssa.Value) ssa.Value {
	if u := unspill(v); u != v {
		return u
	}
	ld, ok := v.(*ssa.UnOp)
	if !ok || ld.Op != token.MUL {
		return v
	}
	al, ok := ld.X.(*ssa.Alloc)
	if !ok || !privateCell(al) {
		return v
	}
	var stores []*ssa.Store
	for _, ref := range *al.Referrers() {
		if st, isSt := ref.(*ssa.Store); isSt {
			stores = append(stores, st)
		}
	}
	for _, s1 := range stores {
		if !instrDominates(s1, ld) {
			continue
		}
		clean := true
		for _, s2 := range stores {
			if s2 != s1 && instrReaches(s1, s2) && instrReaches(s2, ld) {
				clean = false
			}
		}
		if clean {
			return s1.Val
		}
	}
	return v
}

// retResults returns the results of a return with deferred-result spills resolved.
func retResults(ret *ssa.Return) []ssa.Value {
	out := make([]ssa.Value, len(ret.Results))
	for i, r := range ret.Results {
		out[i] = unspill(r)
	}
	return out
}

// firstNonPhi returns the first non-phi instruction of a block (the walker's Visit hook is not
// called for phis).
func firstNonPhi(b *ssa.BasicBlock) ssa.Instruction {
	if b == nil {
		return nil
	}
	for _, x := range b.Instrs {
		if _, isPhi := x.(*ssa.Phi); !isPhi {
			return x
		}
	}
	return nil
}

// ---------- closed-world call sites ----------

type callerInfo struct {
	sites     []Site
	addrTaken bool
}

func (c *Ctx) buildCallersIdx() {
	c.callersIdx = map[*ssa.Function]*callerInfo{}
	get := func(f *ssa.Function) *callerInfo {
		ci := c.callersIdx[f]
		if ci == nil {
			ci = &callerInfo{}
			c.callersIdx[f] = ci
		}
		return ci
	}
	var ops []*ssa.Value
	for _, fn := range c.Fns {
		for _, b := range fn.Blocks {
			for _, in := range b.Instrs {
				var callee *ssa.Function
				if call, ok := in.(ssa.CallInstruction); ok {
					if f := call.Common().StaticCallee(); f != nil {
						callee = f
						get(f).sites = append(get(f).sites, Site{fn, call, calleeName(call.Common())})
					}
				}
				ops = in.Operands(ops[:0])
				for i, op := range ops {
					if op == nil || *op == nil {
						continue
					}
					f, ok := (*op).(*ssa.Function)
					if !ok {
						if mc, isMC := (*op).(*ssa.MakeClosure); isMC {
							_ = mc
						}
						continue
					}
					// operand 0 of a call instruction is the callee value
					if callee == f && i == 0 {
						continue
					}
					if mc, isMC := in.(*ssa.MakeClosure); isMC && mc.Fn == ssa.Value(f) {
						// a closure value: count as address-taken unless only called directly
						onlyCalled := true
						for _, ref := range *mc.Referrers() {
							call, isCall := ref.(ssa.CallInstruction)
							if !isCall || call.Common().Value != ssa.Value(mc) {
								if _, isDbg := ref.(*ssa.DebugRef); !isDbg {
									onlyCalled = false
								}
							}
						}
						if onlyCalled {
							continue
						}
					}
					get(f).addrTaken = true
				}
			}
		}
	}
}

// staticCallers returns every call site of fn in the module and whether that list is
// complete: fn is never used as a value, and it cannot be called from outside the module
// (unexported, a method of an unexported type, or inside an internal package).
func (c *Ctx) staticCallers(fn *ssa.Function) ([]Site, bool) {
	if c.callersIdx == nil {
		c.buildCallersIdx()
	}
	ci := c.callersIdx[fn]
	if ci == nil {
		return nil, false
	}
	if ci.addrTaken || fn.Pkg == nil && fn.Parent() == nil {
		return ci.sites, false
	}
	if fn.Parent() != nil {
		return ci.sites, true // anonymous function only ever called directly
	}
	path := fn.Pkg.Pkg.Path()
	internal := strings.Contains(path, "/internal/") || strings.HasSuffix(path, "/internal")
	exported := token.IsExported(fn.Name())
	if recv := fn.Signature.Recv(); recv != nil {
		rt := recv.Type()
		if p, ok := rt.(*types.Pointer); ok {
			rt = p.Elem()
		}
		if n, ok := rt.(*types.Named); ok && !n.Obj().Exported() {
			exported = false
		}
		// a method may also be reached through an interface
		if exported || c.methodInSomeInterface(fn) {
			return ci.sites, false
		}
	}
	return ci.sites, internal || !exported
}

// methodInSomeInterface: conservatively, a method whose name is declared by any interface
// type of the module or of its imports may be invoked dynamically.
func (c *Ctx) methodInSomeInterface(fn *ssa.Function) bool {
	name := fn.Name()
	for _, f := range c.Fns {
		for _, b := range f.Blocks {
			for _, in := range b.Instrs {
				if call, ok := in.(ssa.CallInstruction); ok && call.Common().IsInvoke() && call.Common().Method.Name() == name {
					return true
				}
			}
		}
	}
	return false
}

// unitFuncs: fn together with the unexported same-package functions and function literals it
// calls statically (transitively, bounded): the unit a maintainer may freely re-cut into helpers.
func (c *Ctx) unitFuncs(fn *ssa.Function) []*ssa.Function {
	seen := map[*ssa.Function]bool{fn: true}
	out := []*ssa.Function{fn}
	var rec func(f *ssa.Function, d int)
	rec = func(f *ssa.Function, d int) {
		if d > 3 {
			return
		}
		for _, b := range f.Blocks {
			for _, in := range b.Instrs {
				var g *ssa.Function
				switch x := in.(type) {
				case ssa.CallInstruction:
					g = x.Common().StaticCallee()
				case *ssa.MakeClosure:
					g, _ = x.Fn.(*ssa.Function)
				}
				if g == nil || seen[g] || len(g.Blocks) == 0 {
					continue
				}
				if g.Parent() == nil && (g.Pkg == nil || g.Pkg != fn.Pkg || token.IsExported(g.Name())) {
					continue
				}
				seen[g] = true
				out = append(out, g)
				rec(g, d+1)
			}
		}
	}
	rec(fn, 0)
	return out
}

// OriginsIP is Origins with parameters of closed-world functions (every call site known)
// replaced by the origins of the corresponding arguments at those call sites.
func (c *Ctx) OriginsIP(v ssa.Value, depth int) []ssa.Value {
	var out []ssa.Value
	for _, l := range c.Origins(v, 0) {
		p, ok := l.(*ssa.Parameter)
		if !ok || depth >= 3 {
			out = append(out, l)
			continue
		}
		fn := p.Parent()
		idx := -1
		for i, q := range fn.Params {
			if q == p {
				idx = i
			}
		}
		sites, closed := c.staticCallers(fn)
		if idx < 0 || !closed || len(sites) == 0 {
			out = append(out, l)
			continue
		}
		for _, s := range sites {
			args := s.Call.Common().Args
			if idx < len(args) {
				out = append(out, c.OriginsIP(args[idx], depth+1)...)
			} else {
				out = append(out, l)
			}
		}
	}
	return out
}

// OriginsThrough is Origins that also looks through calls to unexported helpers of the same
// package: the leaves of such a call are the leaves of what the helper returns (the result index
// in question), with the helper's parameters replaced by the leaves of the arguments at this call.
func (c *Ctx) OriginsThrough(v ssa.Value, depth int) []ssa.Value {
	var out []ssa.Value
	for _, l := range c.Origins(v, 0) {
		call, idx := callOfResult(l)
		if call == nil || depth >= 3 {
			out = append(out, l)
			continue
		}
		callee := call.Call.StaticCallee()
		if callee == nil || len(callee.Blocks) == 0 || callee.Pkg == nil || call.Parent() == nil || callee.Pkg != call.Parent().Pkg || token.IsExported(callee.Name()) {
			out = append(out, l)
			continue
		}
		expanded := false
		for _, b := range callee.Blocks {
			ret, ok := b.Instrs[len(b.Instrs)-1].(*ssa.Return)
			if !ok || idx >= len(ret.Results) {
				continue
			}
			for _, rl := range c.OriginsThrough(unspill(ret.Results[idx]), depth+1) {
				if p, isP := rl.(*ssa.Parameter); isP && p.Parent() == callee {
					pi := paramIndex(p)
					args := call.Call.Args
					if pi >= 0 && pi < len(args) {
						out = append(out, c.OriginsThrough(args[pi], depth+1)...)
						expanded = true
						continue
					}
				}
				out = append(out, rl)
				expanded = true
			}
		}
		if !expanded {
			out = append(out, l)
		}
	}
	return out
}

// resolveParam follows a parameter of an unexported function all of whose callers are static
// calls to the arguments at those call sites (up to three levels); any other value is returned
// as it is. ok is false when some level has callers that are not known.
func (c *Ctx) resolveParam(v ssa.Value, d int) ([]ssa.Value, bool) {
	p, isP := unspill(v).(*ssa.Parameter)
	if !isP || d > 3 || p.Parent() == nil || p.Parent().Parent() != nil {
		return []ssa.Value{v}, true
	}
	fn := p.Parent()
	sites, complete := c.staticCallers(fn)
	if !complete || len(sites) == 0 {
		return []ssa.Value{v}, true
	}
	idx := paramIndex(p)
	var out []ssa.Value
	for _, s := range sites {
		call, isCall := s.Call.(*ssa.Call)
		if !isCall || idx < 0 || idx >= len(call.Call.Args) {
			return nil, false
		}
		sub, ok := c.resolveParam(call.Call.Args[idx], d+1)
		if !ok {
			return nil, false
		}
		out = append(out, sub...)
	}
	return out, true
}

// allResolved: v, with parameters followed to the call sites, satisfies pred everywhere.
func (c *Ctx) allResolved(v ssa.Value, pred func(ssa.Value) bool) bool {
	vs, ok := c.resolveParam(v, 0)
	if !ok || len(vs) == 0 {
		return false
	}
	for _, x := range vs {
		if !pred(x) {
			return false
		}
	}
	return true
}

// onlyReachedFrom: every static caller chain of the unexported function ends in a function whose
// name contains the given text (the callers are all known).
func (c *Ctx) onlyReachedFrom(fn *ssa.Function, name string, d int) bool {
	if d > 3 {
		return false
	}
	sites, complete := c.staticCallers(fn)
	if !complete || len(sites) == 0 {
		return false
	}
	for _, s := range sites {
		if strings.Contains(short(s.Fn), name) {
			continue
		}
		if !c.onlyReachedFrom(s.Fn, name, d+1) {
			return false
		}
	}
	return true
}
