package main

import (
	"fmt"
	"sort"
	"strings"

	"golang.org/x/tools/go/ssa"
)

// Lock identities are "<owner type>.<field>", e.g. "dtls.Conn.lock".
type lockState map[string]int // 1 = read-held, 2 = write-held

func (s lockState) clone() lockState {
	o := lockState{}
	for k, v := range s {
		o[k] = v
	}
	return o
}

func meet(a, b lockState) lockState {
	o := lockState{}
	for k, v := range a {
		if w, ok := b[k]; ok {
			o[k] = min(v, w)
		}
	}
	return o
}

func eqState(a, b lockState) bool {
	if len(a) != len(b) {
		return false
	}
	for k, v := range a {
		if b[k] != v {
			return false
		}
	}
	return true
}

// lockOp classifies a call as a mutex operation: returns lock id, op ("Lock","Unlock","RLock","RUnlock").
func lockOp(cc *ssa.CallCommon) (id, op string, ok bool) {
	callee := cc.StaticCallee()
	if callee == nil {
		return "", "", false
	}
	n := callee.String()
	switch n {
	case "(*sync.Mutex).Lock", "(*sync.RWMutex).Lock":
		op = "Lock"
	case "(*sync.Mutex).Unlock", "(*sync.RWMutex).Unlock":
		op = "Unlock"
	case "(*sync.RWMutex).RLock":
		op = "RLock"
	case "(*sync.RWMutex).RUnlock":
		op = "RUnlock"
	case "(*sync.Mutex).TryLock", "(*sync.RWMutex).TryLock", "(*sync.RWMutex).TryRLock":
		return "?", "Try", true
	default:
		return "", "", false
	}
	if len(cc.Args) == 0 {
		return "?", op, true
	}
	if o, f, _, isF := fieldOfAddr(cc.Args[0]); isF {
		return o + "." + f, op, true
	}
	return "?", op, true
}

type lockFacts struct {
	before map[ssa.Instruction]lockState
	acq    []lockAcq // acquisitions with the state held at that time
}

type lockAcq struct {
	id   string
	held lockState
	in   ssa.Instruction
}

// lockFactsOf computes, for every instruction of fn, the set of locks that are
// held on every path reaching it (must analysis). Deferred unlocks keep the
// lock held to the end of the function.
func (c *Ctx) lockFactsOf(fn *ssa.Function) *lockFacts {
	if c.lf == nil {
		c.lf = map[*ssa.Function]*lockFacts{}
	}
	if f, ok := c.lf[fn]; ok {
		return f
	}
	lf := &lockFacts{before: map[ssa.Instruction]lockState{}}
	c.lf[fn] = lf
	if fn.Blocks == nil {
		return lf
	}
	in := map[*ssa.BasicBlock]lockState{}
	out := map[*ssa.BasicBlock]lockState{}
	have := map[*ssa.BasicBlock]bool{}
	work := []*ssa.BasicBlock{fn.Blocks[0]}
	in[fn.Blocks[0]] = lockState{}
	have[fn.Blocks[0]] = true
	transfer := func(b *ssa.BasicBlock, st lockState, record bool) lockState {
		st = st.clone()
		for _, instr := range b.Instrs {
			if record {
				lf.before[instr] = st.clone()
			}
			call, ok := instr.(*ssa.Call)
			if !ok {
				continue
			}
			id, op, ok := lockOp(&call.Call)
			if !ok {
				continue
			}
			switch op {
			case "Lock":
				if record {
					lf.acq = append(lf.acq, lockAcq{id, st.clone(), instr})
				}
				st[id] = 2
			case "RLock":
				if record {
					lf.acq = append(lf.acq, lockAcq{id, st.clone(), instr})
				}
				if st[id] < 1 {
					st[id] = 1
				}
			case "Unlock", "RUnlock":
				delete(st, id)
			}
		}
		return st
	}
	for len(work) > 0 {
		b := work[len(work)-1]
		work = work[:len(work)-1]
		o := transfer(b, in[b], false)
		if old, ok := out[b]; ok && eqState(old, o) {
			continue
		}
		out[b] = o
		for _, s := range b.Succs {
			var ns lockState
			if !have[s] {
				ns = o.clone()
			} else {
				ns = meet(in[s], o)
				if eqState(ns, in[s]) {
					continue
				}
			}
			in[s] = ns
			have[s] = true
			work = append(work, s)
		}
	}
	for _, b := range fn.Blocks {
		if have[b] {
			transfer(b, in[b], true)
		}
	}
	return lf
}

// heldResult describes the outcome of an interprocedural "must hold lock at these sites" query.
type heldResult struct {
	Holders  []string // functions that acquire the lock on behalf of the sites
	Failures []string // root paths that reach a site without the lock
	Examined int
}

// mustHold checks that every site (an instruction in a module function) executes
// with lock `id` held in at least `mode` (1 read, 2 write): either locally, or
// by every caller up the CHA call graph. Roots reached without the lock fail.
func (c *Ctx) mustHold(id string, mode int, sites []ssa.Instruction) heldResult {
	var res heldResult
	holders := map[string]bool{}
	type item struct {
		fn   *ssa.Function
		path []string
	}
	needs := map[*ssa.Function]bool{}
	var work []item
	for _, s := range sites {
		fn := s.Parent()
		res.Examined++
		if c.lockFactsOf(fn).before[s][id] >= mode {
			holders[short(fn)] = true
			continue
		}
		if !needs[fn] {
			needs[fn] = true
			work = append(work, item{fn, []string{short(fn)}})
		}
	}
	cg := c.CG()
	for len(work) > 0 {
		it := work[0]
		work = work[1:]
		node := cg.Nodes[it.fn]
		var callers int
		if node != nil {
			for _, e := range node.In {
				caller := e.Caller.Func
				if !inModule(caller) || caller.Blocks == nil {
					continue
				}
				if caller.Synthetic != "" && caller.Parent() == nil && !strings.HasPrefix(caller.Synthetic, "package init") {
					// wrapper/thunk/bound method: pass through to its callers
					callers++
					if !needs[caller] {
						needs[caller] = true
						work = append(work, item{caller, append(append([]string{}, it.path...), short(caller))})
					}
					continue
				}
				callers++
				res.Examined++
				site := e.Site
				if site == nil {
					continue
				}
				if _, isGo := site.(*ssa.Go); isGo {
					res.Failures = append(res.Failures, strings.Join(append(append([]string{}, it.path...), "go@"+short(caller)), " <- "))
					continue
				}
				if _, isDefer := site.(*ssa.Defer); isDefer {
					// deferred call runs at function exit: locks released by earlier-registered
					// deferred unlocks may or may not be held; treat as not held
					res.Failures = append(res.Failures, strings.Join(append(append([]string{}, it.path...), "defer@"+short(caller)), " <- "))
					continue
				}
				if c.lockFactsOf(caller).before[site][id] >= mode {
					holders[short(caller)] = true
					continue
				}
				if !needs[caller] {
					needs[caller] = true
					work = append(work, item{caller, append(append([]string{}, it.path...), short(caller))})
				}
			}
		}
		if callers == 0 {
			res.Failures = append(res.Failures, strings.Join(it.path, " <- ")+" (root)")
		}
	}
	for h := range holders {
		res.Holders = append(res.Holders, h)
	}
	sort.Strings(res.Holders)
	sort.Strings(res.Failures)
	return res
}

// lockOrderEdges returns "A -> B" edges: B acquired while A is held (intraprocedurally,
// plus one level: a call made while holding A to a function that acquires B anywhere, transitively).
func (c *Ctx) lockOrderEdges() map[string][]string {
	edges := map[string]map[string]string{}
	add := func(a, b, where string) {
		if a == b || a == "?" || b == "?" {
			return
		}
		if edges[a] == nil {
			edges[a] = map[string]string{}
		}
		if _, ok := edges[a][b]; !ok {
			edges[a][b] = where
		}
	}
	// acquires(fn): locks acquired by fn or its static/CHA callees (transitive)
	acq := map[*ssa.Function]map[string]bool{}
	var acquires func(fn *ssa.Function, depth int) map[string]bool
	busy := map[*ssa.Function]bool{}
	acquires = func(fn *ssa.Function, depth int) map[string]bool {
		if a, ok := acq[fn]; ok {
			return a
		}
		if busy[fn] || fn.Blocks == nil || !inModule(fn) {
			return nil
		}
		busy[fn] = true
		a := map[string]bool{}
		for _, la := range c.lockFactsOf(fn).acq {
			a[la.id] = true
		}
		for _, b := range fn.Blocks {
			for _, in := range b.Instrs {
				call, ok := in.(*ssa.Call)
				if !ok {
					continue
				}
				if callee := call.Call.StaticCallee(); callee != nil {
					for k := range acquires(callee, depth+1) {
						a[k] = true
					}
				} else if node := c.CG().Nodes[fn]; node != nil {
					for _, e := range node.Out {
						if e.Site == in {
							for k := range acquires(e.Callee.Func, depth+1) {
								a[k] = true
							}
						}
					}
				}
			}
		}
		busy[fn] = false
		acq[fn] = a
		return a
	}
	for _, fn := range c.Fns {
		lf := c.lockFactsOf(fn)
		for _, la := range lf.acq {
			for held := range la.held {
				add(held, la.id, c.ipos(la.in))
			}
		}
		for _, b := range fn.Blocks {
			for _, in := range b.Instrs {
				call, ok := in.(*ssa.Call)
				if !ok {
					continue
				}
				held := lf.before[in]
				if len(held) == 0 {
					continue
				}
				if _, _, isLock := lockOp(&call.Call); isLock {
					continue
				}
				var callees []*ssa.Function
				if callee := call.Call.StaticCallee(); callee != nil {
					callees = append(callees, callee)
				} else if node := c.CG().Nodes[fn]; node != nil {
					for _, e := range node.Out {
						if e.Site == in {
							callees = append(callees, e.Callee.Func)
						}
					}
				}
				for _, callee := range callees {
					for k := range acquires(callee, 0) {
						for h := range held {
							add(h, k, fmt.Sprintf("%s calls %s", c.ipos(in), short(callee)))
						}
					}
				}
			}
		}
	}
	out := map[string][]string{}
	for a, m := range edges {
		for b, where := range m {
			out[a] = append(out[a], b+" @ "+where)
		}
		sort.Strings(out[a])
	}
	return out
}
