package main

import (
	"fmt"
	"go/token"
	"go/types"
	"sort"
	"strings"

	"golang.org/x/tools/go/ssa"
)

// shapeOf renders an SSA value as a small source-like expression, stable under
// line moves and renames of locals that do not appear (parameters are named,
// locals are rendered through their defining expression). Depth-limited.
// shapeNorm, when set, renders identifiers a maintainer may rename freely (parameters, locals,
// captured variables) positionally or anonymously: the result keys reviewed judgements.
var shapeNorm bool

func paramIndex(p *ssa.Parameter) int {
	for i, q := range p.Parent().Params {
		if q == p {
			return i
		}
	}
	return -1
}

// normShapeOf is shapeOf with local names abstracted.
func normShapeOf(v ssa.Value) string {
	old := shapeNorm
	shapeNorm = true
	defer func() { shapeNorm = old }()
	return shapeOf(v, 0)
}

// shapeParamSubst, when set, renders the listed parameters as the normalised shape of the argument
// a given call site passes for them: the shape a site in a helper would have in that caller.
var shapeParamSubst map[*ssa.Parameter]string

func normSiteShape(in ssa.Instruction) string {
	old := shapeNorm
	shapeNorm = true
	defer func() { shapeNorm = old }()
	return siteShape(in)
}

func shapeOf(v ssa.Value, d int) string {
	if v == nil {
		return ""
	}
	if d > 5 {
		return "_"
	}
	if shapeNorm {
		// integer arithmetic is rendered in a canonical linear form, so that re-associating or
		// naming intermediate sums does not change the key
		if bo, ok := v.(*ssa.BinOp); ok && (bo.Op == token.ADD || bo.Op == token.SUB || bo.Op == token.MUL) {
			if _, _, isInt := isIntLike(bo.Type()); isInt && bo.Parent() != nil && exactArith(bo.Type()) {
				if l := getAn(bo.Parent()).linOf(bo, 0); l.ok {
					return canonLin(l, d)
				}
			}
		}
	}
	switch x := v.(type) {
	case *ssa.Const:
		if x.Value == nil {
			return "nil"
		}
		return x.Value.ExactString()
	case *ssa.Parameter:
		if shapeNorm {
			if sub, ok := shapeParamSubst[x]; ok {
				return sub
			}
			return fmt.Sprintf("p%d", paramIndex(x))
		}
		return x.Name()
	case *ssa.FreeVar:
		if shapeNorm {
			return "fv"
		}
		return x.Name()
	case *ssa.Global:
		return x.Name()
	case *ssa.Alloc:
		if p := spilledParam(x); p != nil {
			return shapeOf(p, d)
		}
		if shapeNorm {
			return "loc"
		}
		if x.Comment != "" {
			return x.Comment
		}
		return "new"
	case *ssa.Phi:
		if shapeNorm {
			return "φ"
		}
		if x.Comment != "" {
			return "φ" + x.Comment
		}
		return "φ"
	case *ssa.BinOp:
		return "(" + shapeOf(x.X, d+1) + x.Op.String() + shapeOf(x.Y, d+1) + ")"
	case *ssa.UnOp:
		if x.Op == token.MUL {
			if _, f, base, ok := fieldOfAddr(x.X); ok {
				return strings.TrimPrefix(shapeOf(base, d+1), "&") + "." + f
			}
			if ia, ok := x.X.(*ssa.IndexAddr); ok {
				return shapeOf(ia.X, d+1) + "[" + shapeOf(ia.Index, d+1) + "]"
			}
			return "*" + shapeOf(x.X, d+1)
		}
		return x.Op.String() + shapeOf(x.X, d+1)
	case *ssa.FieldAddr:
		_, f, base, _ := fieldOfAddr(x)
		return "&" + strings.TrimPrefix(shapeOf(base, d+1), "&") + "." + f
	case *ssa.Field:
		_, f, base, _ := fieldLoad(x)
		return shapeOf(base, d+1) + "." + f
	case *ssa.IndexAddr:
		return "&" + shapeOf(x.X, d+1) + "[" + shapeOf(x.Index, d+1) + "]"
	case *ssa.Index:
		return shapeOf(x.X, d+1) + "[" + shapeOf(x.Index, d+1) + "]"
	case *ssa.Lookup:
		return shapeOf(x.X, d+1) + "[" + shapeOf(x.Index, d+1) + "]"
	case *ssa.Slice:
		return shapeOf(x.X, d+1) + "[" + shapeOf(x.Low, d+1) + ":" + shapeOf(x.High, d+1) + "]"
	case *ssa.Convert:
		return typeShort(x.Type()) + "(" + shapeOf(x.X, d+1) + ")"
	case *ssa.ChangeType:
		return shapeOf(x.X, d+1)
	case *ssa.MakeInterface:
		return shapeOf(x.X, d+1)
	case *ssa.MakeSlice:
		return "make(" + typeShort(x.Type()) + "," + shapeOf(x.Len, d+1) + ")"
	case *ssa.Extract:
		return shapeOf(x.Tuple, d+1) + fmt.Sprintf("#%d", x.Index)
	case *ssa.TypeAssert:
		return shapeOf(x.X, d+1) + ".(" + typeShort(x.AssertedType) + ")"
	case *ssa.Call:
		var args []string
		for _, a := range x.Call.Args {
			args = append(args, shapeOf(a, d+1))
		}
		n := calleeName(&x.Call)
		if x.Call.IsInvoke() {
			n = shapeOf(x.Call.Value, d+1) + "." + x.Call.Method.Name()
		}
		return n + "(" + strings.Join(args, ",") + ")"
	case *ssa.Range:
		return "range " + shapeOf(x.X, d+1)
	case *ssa.Next:
		return "next"
	case *ssa.Function:
		return short(x)
	}
	if _, ok := v.Type().Underlying().(*types.Basic); ok {
		return "v"
	}
	return fmt.Sprintf("%T", v)
}

func siteShape(in ssa.Instruction) string {
	switch x := in.(type) {
	case *ssa.IndexAddr:
		return shapeOf(x.X, 0) + "[" + shapeOf(x.Index, 0) + "]"
	case *ssa.Index:
		return shapeOf(x.X, 0) + "[" + shapeOf(x.Index, 0) + "]"
	case *ssa.Slice:
		return shapeOf(x, 0)
	case *ssa.Call:
		return shapeOf(x, 0)
	case *ssa.Convert:
		return types.TypeString(x.Type(), func(*types.Package) string { return "" }) + "(" + shapeOf(x.X, 0) + ")"
	}
	return in.String()
}

// spilledParam: the cell only ever holds a parameter of its function (a by-value parameter whose
// address is taken, e.g. for a method call or a field access).
func spilledParam(al *ssa.Alloc) *ssa.Parameter {
	var p *ssa.Parameter
	for _, ref := range *al.Referrers() {
		if st, ok := ref.(*ssa.Store); ok && st.Addr == ssa.Value(al) {
			q, isP := st.Val.(*ssa.Parameter)
			if !isP || (p != nil && p != q) {
				return nil
			}
			p = q
		}
	}
	return p
}

// canonLin renders a linear form with its atoms in normalised shape, terms sorted.
func canonLin(l lin, d int) string {
	var parts []string
	for at, co := range l.c {
		n := shapeOf(at.v, d+1)
		switch at.k {
		case akLen:
			n = "len(" + n + ")"
		case akCap:
			n = "cap(" + n + ")"
		}
		if co == 1 {
			parts = append(parts, n)
		} else {
			parts = append(parts, fmt.Sprintf("%d*%s", co, n))
		}
	}
	sort.Strings(parts)
	if l.k != 0 || len(parts) == 0 {
		parts = append(parts, fmt.Sprint(l.k))
	}
	return "(" + strings.Join(parts, "+") + ")"
}
