package main

import (
	"fmt"
	"go/constant"
	"go/token"
	"go/types"
	"sort"
	"strings"

	"golang.org/x/tools/go/ssa"
)

// Engine E8: symbolic byte-layout extraction for straight-line encoders.
//
// A layout is a sequence of segments. A fixed segment is a run of bytes taken
// from one source value, most significant first ("h.Epoch[1..0]"); a variable
// segment is a whole byte string ("h.ConnectionID[*]").

type cell struct {
	src string // source descriptor; "" = never written (zero); "0x.." constants
	lsb int    // byte index within the source counted from the least significant byte
	set bool
}

type seg struct {
	src    string
	hi, lo int  // byte range [hi..lo] of the source (fixed), when !variable
	vari   bool // whole variable-length byte string
	zeroes int  // run of never-written (zero) bytes
}

func (s seg) String() string {
	switch {
	case strings.HasPrefix(s.src, "0x") && !s.vari && s.zeroes == 0:
		return s.src
	case s.zeroes > 0:
		return fmt.Sprintf("zero*%d", s.zeroes)
	case s.vari && (strings.HasSuffix(s.src, "{") || s.src == "}"):
		return s.src
	case s.vari:
		return s.src + "[*]"
	case s.hi == s.lo:
		return fmt.Sprintf("%s[%d]", s.src, s.lo)
	}
	return fmt.Sprintf("%s[%d..%d]", s.src, s.hi, s.lo)
}

func layoutString(ss []seg) string {
	var out []string
	for _, s := range ss {
		out = append(out, s.String())
	}
	return strings.Join(out, " ")
}

func cellsToSegs(cs []cell) []seg {
	var out []seg
	for _, c := range cs {
		if !c.set {
			if n := len(out); n > 0 && out[n-1].zeroes > 0 {
				out[n-1].zeroes++
			} else {
				out = append(out, seg{zeroes: 1})
			}
			continue
		}
		if n := len(out); n > 0 && out[n-1].zeroes == 0 && !out[n-1].vari && out[n-1].src == c.src && out[n-1].lo == c.lsb+1 {
			out[n-1].lo = c.lsb
			continue
		}
		out = append(out, seg{src: c.src, hi: c.lsb, lo: c.lsb})
	}
	return out
}

// mergeSegs joins adjacent fixed pieces of one source whose byte ranges continue each other
// (x[5] x[4] ... -> x[5..4]): the layout is a byte sequence however it was put together.
func mergeSegs(ss []seg) []seg {
	var out []seg
	for _, s := range ss {
		if n := len(out); n > 0 && !s.vari && s.zeroes == 0 && !out[n-1].vari && out[n-1].zeroes == 0 &&
			out[n-1].src == s.src && !strings.HasPrefix(s.src, "0x") && out[n-1].lo == s.hi+1 {
			out[n-1].lo = s.lo
			continue
		}
		out = append(out, s)
	}
	return out
}

// srcDesc renders the source of a value with integer conversions stripped.
// phiResolve, when set, maps phis to the value they take on the path under consideration
// (filled from a Walk); the layout functions then describe that value instead of giving up.
var phiResolve map[*ssa.Phi]ssa.Value

// curPath, when set, restricts the layout extraction to the instructions and control-flow edges
// of one explored path set (a Walk under assumptions): writes that the exploration did not reach
// are ignored and "precedes on every path" is judged on the edges actually taken.
type pathInfo struct {
	reached map[ssa.Instruction]bool
	seq     map[ssa.Instruction]int
	edges   map[[2]*ssa.BasicBlock]bool
}

var curPath *pathInfo

func withPath(w *Walk, f func()) {
	old := curPath
	curPath = &pathInfo{reached: w.Reached, seq: w.Seq, edges: w.Edges}
	defer func() { curPath = old }()
	f()
}

func onPath(in ssa.Instruction) bool { return curPath == nil || curPath.reached[in] }

// layoutDominates: a is executed before b on every (explored) path reaching b.
func layoutDominates(a, b ssa.Instruction) bool {
	if curPath == nil || a.Parent() != b.Parent() {
		return instrDominates(a, b)
	}
	if instrDominates(a, b) {
		return true
	}
	if a.Block() == b.Block() {
		return false
	}
	// search from the entry over the taken edges without passing a's block: b must be unreachable
	fn := a.Parent()
	seen := map[*ssa.BasicBlock]bool{}
	st := []*ssa.BasicBlock{fn.Blocks[0]}
	for len(st) > 0 {
		blk := st[len(st)-1]
		st = st[:len(st)-1]
		if seen[blk] || blk == a.Block() {
			continue
		}
		seen[blk] = true
		if blk == b.Block() {
			return false
		}
		for _, su := range blk.Succs {
			if curPath.edges[[2]*ssa.BasicBlock{blk, su}] {
				st = append(st, su)
			}
		}
	}
	return true
}

// pathSort orders instructions by first visit on the explored path.
func pathSort(ops []ssa.Instruction) {
	if curPath == nil {
		return
	}
	sort.SliceStable(ops, func(i, j int) bool { return curPath.seq[ops[i]] < curPath.seq[ops[j]] })
}

func withPhis(raw map[*ssa.Phi]ssa.Value, f func()) {
	old := phiResolve
	phiResolve = raw
	defer func() { phiResolve = old }()
	f()
}

// layoutAssume, when set, holds the assumptions of the path exploration the layout is extracted
// under: a component of a tuple returned by a module helper is then described by what the helper
// returns for it on the paths those assumptions allow (all of them must agree).
var layoutAssume []atomAssume

func withAssume(as []atomAssume, f func()) {
	old := layoutAssume
	layoutAssume = as
	defer func() { layoutAssume = old }()
	f()
}

// tupleComponentDesc: v is component #i of the tuple a module helper returns.
func tupleComponentDesc(ex *ssa.Extract) (string, bool) {
	if layoutAssume == nil {
		return "", false
	}
	call, ok := ex.Tuple.(*ssa.Call)
	if !ok {
		return "", false
	}
	g := call.Call.StaticCallee()
	if g == nil || !inModule(g) || len(g.Blocks) == 0 {
		return "", false
	}
	w := (&Walk{Fn: g, Assume: assumeAll(layoutAssume...)}).FromEntry()
	if w.overflow || len(w.Returns) == 0 {
		return "", false
	}
	seen := ""
	for _, ro := range w.Returns {
		if ex.Index >= len(ro.Raw) {
			return "", false
		}
		d := ""
		withPath(w, func() { withPhis(ro.RawEnv, func() { d = srcDesc(ro.Raw[ex.Index]) }) })
		if seen != "" && d != seen {
			return "", false
		}
		seen = d
	}
	return seen, seen != ""
}

func srcDesc(v ssa.Value) string {
	for {
		switch x := v.(type) {
		case *ssa.Extract:
			if d, ok := tupleComponentDesc(x); ok {
				return d
			}
		case *ssa.Phi:
			if r, ok := phiResolve[x]; ok && r != ssa.Value(x) {
				v = r
				continue
			}
		case *ssa.UnOp:
			// on an explored path: a load of a whole local array is the value last stored to it
			if al, ok := x.X.(*ssa.Alloc); ok && x.Op == token.MUL && curPath != nil {
				if _, isArr := al.Type().Underlying().(*types.Pointer).Elem().Underlying().(*types.Array); isArr {
					if sv := lastWholeStore(al, x); sv != nil {
						v = sv
						continue
					}
				}
			}
		case *ssa.Convert:
			if _, _, ok := isIntLike(x.Type()); ok {
				if _, _, ok2 := isIntLike(x.X.Type()); ok2 {
					v = x.X
					continue
				}
			}
		case *ssa.ChangeType:
			v = x.X
			continue
		}
		break
	}
	if c, ok := v.(*ssa.Const); ok && c.Value != nil {
		if c.Value.Kind() == constant.Int {
			if u, ok := constant.Uint64Val(c.Value); ok {
				return fmt.Sprintf("0x%x", u)
			}
		}
		return "const " + c.Value.ExactString()
	}
	return shapeOfStripped(v, 0)
}

// shapeOfStripped is shapeOf without integer conversions inside.
func shapeOfStripped(v ssa.Value, d int) string {
	s := shapeOf(v, d)
	for _, t := range []string{"uint8(", "uint16(", "uint32(", "uint64(", "byte(", "int("} {
		for strings.Contains(s, t) {
			i := strings.Index(s, t)
			// remove "T(" and the matching ")"
			depth, j := 0, i+len(t)
			for ; j < len(s); j++ {
				if s[j] == '(' {
					depth++
				} else if s[j] == ')' {
					if depth == 0 {
						break
					}
					depth--
				}
			}
			if j >= len(s) {
				break
			}
			s = s[:i] + s[i+len(t):j] + s[j+1:]
		}
	}
	return s
}

// bytesOf decomposes an integer value into w bytes, most significant first.
func bytesOf(v ssa.Value, w int, d int) []cell {
	out := make([]cell, w)
	if d > 8 {
		return opaqueCells(v, w)
	}
	switch x := v.(type) {
	case *ssa.Const:
		if x.Value != nil && x.Value.Kind() == constant.Int {
			if u, ok := constant.Uint64Val(x.Value); ok {
				for i := 0; i < w; i++ {
					b := (u >> (8 * uint(w-1-i))) & 0xff
					if b != 0 {
						out[i] = cell{src: fmt.Sprintf("0x%02x", b), set: true}
					}
				}
				return out
			}
			if i64, ok := constant.Int64Val(x.Value); ok {
				u := uint64(i64)
				for i := 0; i < w; i++ {
					b := (u >> (8 * uint(w-1-i))) & 0xff
					if b != 0 {
						out[i] = cell{src: fmt.Sprintf("0x%02x", b), set: true}
					}
				}
				return out
			}
		}
	case *ssa.Convert:
		sb, _, sok := isIntLike(x.X.Type())
		if _, _, dok := isIntLike(x.Type()); sok && dok {
			sw := sb / 8
			inner := bytesOf(x.X, sw, d+1)
			// zero-extend or truncate, aligned at the least significant byte
			for i := 0; i < w; i++ {
				k := sw - w + i
				if k >= 0 && k < sw {
					out[i] = inner[k]
				}
			}
			return out
		}
	case *ssa.ChangeType:
		return bytesOf(x.X, w, d+1)
	case *ssa.Call:
		// binary.BigEndian.UintN(s): the first N bytes of s, most significant first
		name := calleeName(&x.Call)
		if n := map[string]int{"(encoding/binary.bigEndian).Uint16": 2, "(encoding/binary.bigEndian).Uint32": 4, "(encoding/binary.bigEndian).Uint64": 8}[name]; n > 0 && len(x.Call.Args) == 2 && n <= w {
			base, off := x.Call.Args[1], int64(0)
			okBase := true
			for {
				sl, isSl := base.(*ssa.Slice)
				if !isSl {
					break
				}
				if sl.Low != nil {
					k, isK := constInt(sl.Low)
					if !isK {
						okBase = false
						break
					}
					off += k
				}
				base = sl.X
			}
			if okBase {
				bd := srcDesc(base)
				for i := 0; i < n; i++ {
					out[w-n+i] = cell{src: fmt.Sprintf("%s[%d]", bd, off+int64(i)), set: true}
				}
				return out
			}
		}
	case *ssa.BinOp:
		switch x.Op {
		case token.OR, token.ADD, token.XOR:
			a, b := bytesOf(x.X, w, d+1), bytesOf(x.Y, w, d+1)
			ok := true
			for i := 0; i < w; i++ {
				switch {
				case !a[i].set:
					out[i] = b[i]
				case !b[i].set:
					out[i] = a[i]
				default:
					ok = false
				}
			}
			if ok {
				return out
			}
		case token.SHL, token.SHR:
			if k, isC := constInt(x.Y); isC && k%8 == 0 {
				a := bytesOf(x.X, w, d+1)
				n := int(k / 8)
				for i := 0; i < w; i++ {
					j := i + n
					if x.Op == token.SHR {
						j = i - n
					}
					if j >= 0 && j < w {
						out[i] = a[j]
					}
				}
				return out
			}
		case token.AND:
			for _, pair := range [][2]ssa.Value{{x.X, x.Y}, {x.Y, x.X}} {
				if c, ok := pair[1].(*ssa.Const); ok && c.Value != nil {
					if m, ok := constant.Uint64Val(c.Value); ok {
						a := bytesOf(pair[0], w, d+1)
						aligned := true
						for i := 0; i < w; i++ {
							b := (m >> (8 * uint(w-1-i))) & 0xff
							switch b {
							case 0xff:
								out[i] = a[i]
							case 0:
							default:
								aligned = false
							}
						}
						if aligned {
							return out
						}
					}
				}
			}
		}
	}
	return opaqueCells(v, w)
}

func opaqueCells(v ssa.Value, w int) []cell {
	out := make([]cell, w)
	d := srcDesc(v)
	for i := 0; i < w; i++ {
		out[i] = cell{src: d, lsb: w - 1 - i, set: true}
	}
	return out
}

// bufRoot resolves a destination expression to (root buffer value, constant offset).
func bufRoot(v ssa.Value) (root ssa.Value, off int64, ok bool) {
	switch x := v.(type) {
	case *ssa.Slice:
		r, o, ok := bufRoot(x.X)
		if !ok {
			return nil, 0, false
		}
		lo := int64(0)
		if x.Low != nil {
			k, isC := constInt(x.Low)
			if !isC {
				return r, -1, true // known root, unknown offset
			}
			lo = k
		}
		if o < 0 {
			return r, -1, true
		}
		return r, o + lo, true
	case *ssa.Alloc, *ssa.MakeSlice:
		return x, 0, true
	case *ssa.IndexAddr:
		r, o, ok := bufRoot(x.X)
		if !ok {
			return nil, 0, false
		}
		k, isC := constInt(x.Index)
		if !isC || o < 0 {
			return r, -1, true
		}
		return r, o + k, true
	case *ssa.UnOp:
		if x.Op == token.MUL {
			return bufRoot(x.X)
		}
	case *ssa.Phi:
		// `x = append(x, ...)`-free code does not produce phis for buffers; give up
	}
	return nil, 0, false
}

func fixedLen(v ssa.Value) (int64, bool) {
	switch x := v.(type) {
	case *ssa.Alloc:
		if arr, ok := derefType(x.Type()).Underlying().(*types.Array); ok {
			return arr.Len(), true
		}
	case *ssa.MakeSlice:
		return constInt(x.Len)
	}
	return 0, false
}

var putWidths = map[string]int{
	"(encoding/binary.bigEndian).PutUint16": 2, "(encoding/binary.bigEndian).PutUint32": 4, "(encoding/binary.bigEndian).PutUint64": 8,
	"internal/util.PutBigEndianUint24": 3, "internal/util.PutBigEndianUint48": 6,
}

type layoutErr struct{ msg string }

// fixedLayout interprets, in order, all writes to fixed buffer root that dominate `at`.
func (c *Ctx) fixedLayout(root ssa.Value, at ssa.Instruction) ([]cell, *layoutErr) {
	n, ok := fixedLen(root)
	if !ok {
		return nil, &layoutErr{"buffer length is not a constant"}
	}
	cells := make([]cell, n)
	fn := at.Parent()
	var ops []ssa.Instruction
	for _, b := range fn.Blocks {
		for _, in := range b.Instrs {
			switch x := in.(type) {
			case *ssa.Store:
				if r, _, ok := bufRoot(x.Addr); ok && r == root && onPath(in) {
					ops = append(ops, in)
				}
			case *ssa.Call:
				name := calleeName(&x.Call)
				var dest ssa.Value
				if _, isPut := putWidths[name]; isPut {
					dest = x.Call.Args[len(x.Call.Args)-2]
				} else if name == "builtin:copy" {
					dest = x.Call.Args[0]
				}
				if dest != nil {
					if r, _, ok := bufRoot(dest); ok && r == root && onPath(in) {
						ops = append(ops, in)
					}
				}
			}
		}
	}
	pathSort(ops)
	for i, op := range ops {
		if op != at && !layoutDominates(op, at) {
			return nil, &layoutErr{"a write to the buffer does not dominate its use (branching encoder)"}
		}
		if i > 0 && !layoutDominates(ops[i-1], op) {
			return nil, &layoutErr{"writes to the buffer are not totally ordered"}
		}
	}
	put := func(off int64, cs []cell) *layoutErr {
		if off < 0 || off+int64(len(cs)) > n {
			return &layoutErr{fmt.Sprintf("write at offset %d width %d outside buffer of %d", off, len(cs), n)}
		}
		for i, cc := range cs {
			cells[off+int64(i)] = cc
			cells[off+int64(i)].set = cc.set
		}
		return nil
	}
	for _, op := range ops {
		switch x := op.(type) {
		case *ssa.Store:
			_, off, _ := bufRoot(x.Addr)
			if at, isArr := x.Val.Type().Underlying().(*types.Array); isArr {
				if k, isC := x.Val.(*ssa.Const); isC && k.Value == nil {
					continue // zero-initialisation of the array
				}
				// the whole array assigned from a value (call result, field, resolved phi)
				d := srcDesc(x.Val)
				cs := make([]cell, at.Len())
				for i := range cs {
					cs[i] = cell{src: d, lsb: int(at.Len()) - 1 - i, set: true}
				}
				if e := put(off, cs); e != nil {
					return nil, e
				}
				continue
			}
			if e := put(off, bytesOf(x.Val, 1, 0)); e != nil {
				return nil, e
			}
		case *ssa.Call:
			name := calleeName(&x.Call)
			if w, isPut := putWidths[name]; isPut {
				dest := x.Call.Args[len(x.Call.Args)-2]
				val := x.Call.Args[len(x.Call.Args)-1]
				_, off, _ := bufRoot(dest)
				vw := w
				if b, _, ok := isIntLike(val.Type()); ok {
					vw = b / 8
				}
				cs := bytesOf(val, vw, 0)
				if vw > w {
					cs = cs[vw-w:]
				}
				if e := put(off, cs); e != nil {
					return nil, e
				}
				continue
			}
			// copy(dest, src) with a source of constant length
			_, off, _ := bufRoot(x.Call.Args[0])
			src := x.Call.Args[1]
			sl, known := c.constLen(src)
			if !known {
				return nil, &layoutErr{"copy of a variable-length source into a fixed buffer"}
			}
			d := srcDesc(src)
			cs := make([]cell, sl)
			for i := range cs {
				cs[i] = cell{src: d, lsb: int(sl) - 1 - i, set: true}
			}
			if off < 0 {
				return nil, &layoutErr{"copy to a non-constant offset"}
			}
			if off+sl > n {
				cs = cs[:n-off]
			}
			if e := put(off, cs); e != nil {
				return nil, e
			}
		}
	}
	return cells, nil
}

func (c *Ctx) constLen(v ssa.Value) (int64, bool) {
	if sl, ok := v.(*ssa.Slice); ok {
		lo := int64(0)
		if sl.Low != nil {
			k, isC := constInt(sl.Low)
			if !isC {
				return 0, false
			}
			lo = k
		}
		if sl.High != nil {
			k, isC := constInt(sl.High)
			if !isC {
				return 0, false
			}
			return k - lo, true
		}
		if n, ok := c.constLen(sl.X); ok {
			return n - lo, true
		}
		return 0, false
	}
	if n, ok := fixedLen(v); ok {
		return n, true
	}
	if arr, ok := derefType(v.Type()).Underlying().(*types.Array); ok {
		return arr.Len(), true
	}
	return 0, false
}

var builderAdds = map[string]int{
	"(*golang.org/x/crypto/cryptobyte.Builder).AddUint8": 1, "(*golang.org/x/crypto/cryptobyte.Builder).AddUint16": 2,
	"(*golang.org/x/crypto/cryptobyte.Builder).AddUint24": 3, "(*golang.org/x/crypto/cryptobyte.Builder).AddUint32": 4,
	"(*golang.org/x/crypto/cryptobyte.Builder).AddUint48": 6, "(*golang.org/x/crypto/cryptobyte.Builder).AddUint64": 8,
}

// LayoutOf computes the layout of a []byte (or string) value as used at instruction `at`.
func (c *Ctx) LayoutOf(v ssa.Value, at ssa.Instruction, d int) ([]seg, *layoutErr) {
	if d > 10 {
		return []seg{{src: srcDesc(v), vari: true}}, nil
	}
	switch x := v.(type) {
	case *ssa.Slice:
		root, off, ok := bufRoot(x)
		if ok {
			if n, isFixed := fixedLen(root); isFixed && off >= 0 {
				cells, err := c.fixedLayout(root, at)
				if err != nil {
					return nil, err
				}
				hi := n
				if x.High != nil {
					k, isC := constInt(x.High)
					if !isC {
						return nil, &layoutErr{"non-constant upper slice bound on a fixed buffer"}
					}
					_, baseOff, _ := bufRoot(x.X)
					hi = baseOff + k
				}
				if off > hi || hi > n {
					return nil, &layoutErr{"slice bounds outside buffer"}
				}
				return cellsToSegs(cells[off:hi]), nil
			}
		}
		if x.Low == nil && x.High == nil {
			return c.LayoutOf(x.X, at, d+1)
		}
	case *ssa.Alloc, *ssa.MakeSlice:
		if _, isFixed := fixedLen(x); isFixed {
			cells, err := c.fixedLayout(x, at)
			if err != nil {
				return nil, err
			}
			return cellsToSegs(cells), nil
		}
	case *ssa.Convert:
		// []byte("label")
		if s, ok := constString(x.X); ok {
			return []seg{{src: fmt.Sprintf("%q", s), vari: true}}, nil
		}
		return c.LayoutOf(x.X, at, d+1)
	case *ssa.Const:
		if s, ok := constString(x); ok {
			return []seg{{src: fmt.Sprintf("%q", s), vari: true}}, nil
		}
		if x.Value == nil {
			return nil, nil
		}
	case *ssa.Call:
		name := calleeName(&x.Call)
		switch {
		case name == "builtin:append":
			a, err := c.LayoutOf(x.Call.Args[0], x, d+1)
			if err != nil {
				return nil, err
			}
			b, err := c.LayoutOf(x.Call.Args[1], x, d+1)
			if err != nil {
				return nil, err
			}
			return append(append([]seg{}, a...), b...), nil
		case strings.HasSuffix(name, "cryptobyte.Builder).BytesOrPanic") || strings.HasSuffix(name, "cryptobyte.Builder).Bytes"):
			return c.builderLayout(x.Call.Args[0], x)
		case name == "bytes.Clone" || name == "slices.Clone[[]byte]":
			return c.LayoutOf(x.Call.Args[0], x, d+1)
		case strings.HasPrefix(name, "slices.Concat[") && len(x.Call.Args) == 1:
			// the variadic pieces, in order
			if sl, ok := x.Call.Args[0].(*ssa.Slice); ok {
				if al, isAl := sl.X.(*ssa.Alloc); isAl {
					if n, okN := fixedLen(al); okN || true {
						_ = n
						pieces := map[int64]ssa.Value{}
						max := int64(-1)
						okAll := true
						for _, ref := range *al.Referrers() {
							ia, isIA := ref.(*ssa.IndexAddr)
							if !isIA {
								continue
							}
							k, isK := constInt(ia.Index)
							if !isK {
								okAll = false
								continue
							}
							for _, r2 := range *ia.Referrers() {
								if st, isSt := r2.(*ssa.Store); isSt && st.Addr == ssa.Value(ia) {
									pieces[k] = st.Val
									if k > max {
										max = k
									}
								}
							}
						}
						if okAll && max >= 0 {
							var out []seg
							for i := int64(0); i <= max; i++ {
								pv, has := pieces[i]
								if !has {
									okAll = false
									break
								}
								l, err := c.LayoutOf(pv, x, d+1)
								if err != nil {
									return nil, err
								}
								out = append(out, l...)
							}
							if okAll {
								return out, nil
							}
						}
					}
				}
			}
		case strings.HasPrefix(name, "(encoding/binary.bigEndian).AppendUint"):
			w := map[string]int{"16": 2, "32": 4, "64": 8}[strings.TrimPrefix(name, "(encoding/binary.bigEndian).AppendUint")]
			if w > 0 && len(x.Call.Args) == 3 {
				a, err := c.LayoutOf(x.Call.Args[1], x, d+1)
				if err != nil {
					return nil, err
				}
				cs := bytesOf(x.Call.Args[2], w, 0)
				for i := range cs {
					if !cs[i].set {
						cs[i] = cell{src: "0x00", set: true}
					}
				}
				return append(append([]seg{}, a...), cellsToSegs(cs)...), nil
			}
		}
		if l, err, ok := c.helperLayout(x, 0, at, d); ok {
			return l, err
		}
	case *ssa.Extract:
		if call, ok := x.Tuple.(*ssa.Call); ok {
			name := calleeName(&call.Call)
			if strings.HasSuffix(name, "cryptobyte.Builder).Bytes") && x.Index == 0 {
				return c.builderLayout(call.Call.Args[0], call)
			}
			if l, err, ok := c.helperLayout(call, x.Index, at, d); ok {
				return l, err
			}
		}
	case *ssa.UnOp:
		// a variable captured by reference and assigned exactly once in the enclosing function
		if fv, ok := x.X.(*ssa.FreeVar); ok && x.Op == token.MUL {
			if sv := singleCapturedValue(fv); sv != nil {
				if p, isParam := sv.(*ssa.Parameter); isParam {
					return []seg{{src: p.Name(), vari: true}}, nil
				}
				return c.LayoutOf(sv, nil, d+1)
			}
		}
	case *ssa.BinOp:
		if bt, ok := x.Type().Underlying().(*types.Basic); ok && bt.Info()&types.IsString != 0 && x.Op == token.ADD {
			a, err := c.LayoutOf(x.X, at, d+1)
			if err != nil {
				return nil, err
			}
			b, err := c.LayoutOf(x.Y, at, d+1)
			if err != nil {
				return nil, err
			}
			return append(append([]seg{}, a...), b...), nil
		}
	case *ssa.Phi:
		if r, ok := phiResolve[x]; ok && r != ssa.Value(x) {
			return c.LayoutOf(r, at, d+1)
		}
		if phiEmpty[x] {
			return nil, nil
		}
		// the accumulator of a counting loop with a constant number of turns: the initial value
		// followed by what each turn appends
		if l, err, ok := c.countedLoopLayout(x, at, d); ok {
			return l, err
		}
		// the zero-length initial value merged with an appended value in `var x []byte; if..{x = append(x,...)}` is not straight-line
		return nil, &layoutErr{"value depends on control flow (phi)"}
	}
	return []seg{{src: srcDesc(v), vari: true}}, nil
}

// phiEmpty marks the accumulator phi of a loop being unrolled: inside one turn it stands for
// "what was there before", which the unrolling accounts for itself.
var phiEmpty = map[*ssa.Phi]bool{}

// countedLoopLayout: acc is the header phi of `for i := k0; i <cmp> bound; i += step { acc =
// append(acc, f(i)...) }` with constant k0, bound and step, the loop has one latch and one exit
// test (in the header), and at most 64 turns. The layout is that of the initial value followed by
// the layout of every turn's addition, with the counter given its value of that turn.
func (c *Ctx) countedLoopLayout(acc *ssa.Phi, at ssa.Instruction, d int) ([]seg, *layoutErr, bool) {
	hdr := acc.Block()
	if len(acc.Edges) != 2 || len(hdr.Preds) != 2 {
		return nil, nil, false
	}
	var loop *natLoop
	for _, l := range naturalLoops(hdr.Parent()) {
		if l.header == hdr {
			loop = l
		}
	}
	if loop == nil || len(loop.latches) != 1 {
		return nil, nil, false
	}
	latchIdx := -1
	for i, p := range hdr.Preds {
		if p == loop.latches[0] {
			latchIdx = i
		}
	}
	if latchIdx < 0 {
		return nil, nil, false
	}
	// the exit test
	iff, ok := hdr.Instrs[len(hdr.Instrs)-1].(*ssa.If)
	if !ok {
		return nil, nil, false
	}
	cond, ok := iff.Cond.(*ssa.BinOp)
	if !ok || !loop.blocks[hdr.Succs[0]] || loop.blocks[hdr.Succs[1]] {
		return nil, nil, false
	}
	// no other way out of the loop
	for b := range loop.blocks {
		if b == hdr {
			continue
		}
		for _, su := range b.Succs {
			if !loop.blocks[su] {
				return nil, nil, false
			}
		}
	}
	ctr, ok := stripConv(cond.X).(*ssa.Phi)
	bound, isK := constInt(cond.Y)
	if !ok || !isK || ctr.Block() != hdr || len(ctr.Edges) != 2 {
		return nil, nil, false
	}
	k0, isK0 := constInt(ctr.Edges[1-latchIdx])
	inc, isInc := ctr.Edges[latchIdx].(*ssa.BinOp)
	if !isK0 || !isInc || inc.X != ssa.Value(ctr) || (inc.Op != token.ADD && inc.Op != token.SUB) {
		return nil, nil, false
	}
	step, isStep := constInt(inc.Y)
	if !isStep || step == 0 {
		return nil, nil, false
	}
	if inc.Op == token.SUB {
		step = -step
	}
	holds := func(i int64) bool {
		switch cond.Op {
		case token.LSS:
			return i < bound
		case token.LEQ:
			return i <= bound
		case token.GTR:
			return i > bound
		case token.GEQ:
			return i >= bound
		case token.NEQ:
			return i != bound
		}
		return false
	}
	out, err := c.LayoutOf(acc.Edges[1-latchIdx], at, d+1)
	if err != nil {
		return nil, err, true
	}
	out = append([]seg{}, out...)
	turns := 0
	for i := k0; holds(i); i += step {
		turns++
		if turns > 64 {
			return nil, &layoutErr{"counting loop with more than 64 turns"}, true
		}
		oldOv := constOverride
		constOverride = map[ssa.Value]int64{ctr: i}
		for k, v := range oldOv {
			constOverride[k] = v
		}
		phiEmpty[acc] = true
		l, e := c.LayoutOf(acc.Edges[latchIdx], loop.latches[0].Instrs[len(loop.latches[0].Instrs)-1], d+1)
		delete(phiEmpty, acc)
		constOverride = oldOv
		if e != nil {
			return nil, e, true
		}
		out = append(out, l...)
	}
	return mergeSegs(out), nil, true
}

// builderLayout interprets the Add* calls on one cryptobyte.Builder that dominate `at`.
func (c *Ctx) builderLayout(b ssa.Value, at ssa.Instruction) ([]seg, *layoutErr) {
	fn := at.Parent()
	var out []seg
	var prev ssa.Instruction
	var bops []ssa.Instruction
	for _, blk := range fn.Blocks {
		for _, in := range blk.Instrs {
			call, ok := in.(*ssa.Call)
			if !ok || len(call.Call.Args) == 0 || call.Call.Args[0] != b || in == at || !onPath(in) {
				continue
			}
			name := calleeName(&call.Call)
			if !strings.Contains(name, "cryptobyte.Builder).") {
				continue
			}
			if strings.HasSuffix(name, ".BytesOrPanic") || strings.HasSuffix(name, ".Bytes") {
				continue
			}
			bops = append(bops, in)
		}
	}
	pathSort(bops)
	{
		for _, in := range bops {
			call := in.(*ssa.Call)
			name := calleeName(&call.Call)
			if !layoutDominates(in, at) || (prev != nil && !layoutDominates(prev, in)) {
				return nil, &layoutErr{"builder writes are not straight-line before the use"}
			}
			prev = in
			if w, isAdd := builderAdds[name]; isAdd {
				val := call.Call.Args[1]
				vw := w
				if bits, _, ok := isIntLike(val.Type()); ok {
					vw = bits / 8
				}
				cs := bytesOf(val, vw, 0)
				if vw > w {
					cs = cs[vw-w:]
				}
				for i := range cs {
					if !cs[i].set {
						cs[i] = cell{src: "0x00", set: true}
					}
				}
				out = append(out, cellsToSegs(cs)...)
				continue
			}
			if i := strings.Index(name, ".AddUint"); i >= 0 && strings.HasSuffix(name, "LengthPrefixed") {
				width := strings.TrimSuffix(name[i+len(".AddUint"):], "LengthPrefixed")
				child := funcOfValue(call.Call.Args[1])
				if child == nil || len(child.Params) != 1 {
					return nil, &layoutErr{"length-prefixed child is not a function literal"}
				}
				var last ssa.Instruction
				for _, b := range child.Blocks {
					if ret, ok := b.Instrs[len(b.Instrs)-1].(*ssa.Return); ok {
						last = ret
					}
				}
				inner, err := c.builderLayout(child.Params[0], last)
				if err != nil {
					return nil, err
				}
				out = append(out, seg{src: "u" + width + "len{", vari: true, zeroes: 0})
				out = append(out, inner...)
				out = append(out, seg{src: "}", vari: true})
				continue
			}
			if strings.HasSuffix(name, ".AddBytes") {
				l, err := c.LayoutOf(call.Call.Args[1], call, 1)
				if err != nil {
					return nil, err
				}
				out = append(out, l...)
				continue
			}
			return nil, &layoutErr{"unsupported builder operation " + name}
		}
	}
	return out, nil
}

// hashWrites returns the concatenated layout of everything written to a hash value
// (iface hash.Hash Write calls) that dominates `at`.
func (c *Ctx) hashWrites(h ssa.Value, at ssa.Instruction) ([]seg, *layoutErr) {
	fn := at.Parent()
	var out []seg
	var prev ssa.Instruction
	n := 0
	var hops []ssa.Instruction
	for _, blk := range fn.Blocks {
		for _, in := range blk.Instrs {
			call, ok := in.(*ssa.Call)
			if !ok || !call.Call.IsInvoke() || call.Call.Value != h || call.Call.Method.Name() != "Write" || !onPath(in) {
				continue
			}
			hops = append(hops, in)
		}
	}
	pathSort(hops)
	{
		for _, in := range hops {
			call := in.(*ssa.Call)
			if !layoutDominates(in, at) || (prev != nil && !layoutDominates(prev, in)) {
				return nil, &layoutErr{"hash writes are not straight-line before the use"}
			}
			prev = in
			n++
			l, err := c.LayoutOf(call.Call.Args[0], call, 0)
			if err != nil {
				return nil, err
			}
			out = append(out, l...)
		}
	}
	if n == 0 {
		return nil, &layoutErr{"no Write calls on the hash"}
	}
	return out, nil
}

// singleCapturedValue resolves a by-reference captured variable to the single value ever stored
// to its cell (all closures included); nil if there are several stores or the cell escapes otherwise.
func singleCapturedValue(fv *ssa.FreeVar) ssa.Value {
	fn := fv.Parent()
	idx := -1
	for i, f := range fn.FreeVars {
		if f == fv {
			idx = i
		}
	}
	parent := fn.Parent()
	if idx < 0 || parent == nil {
		return nil
	}
	var cell *ssa.Alloc
	for _, b := range parent.Blocks {
		for _, in := range b.Instrs {
			if mc, ok := in.(*ssa.MakeClosure); ok && mc.Fn == ssa.Value(fn) && idx < len(mc.Bindings) {
				a, ok := mc.Bindings[idx].(*ssa.Alloc)
				if !ok || (cell != nil && cell != a) {
					return nil
				}
				cell = a
			}
		}
	}
	if cell == nil {
		return nil
	}
	var stored ssa.Value
	n := 0
	for _, ref := range *cell.Referrers() {
		switch r := ref.(type) {
		case *ssa.Store:
			if r.Addr != ssa.Value(cell) {
				return nil // the address itself is stored somewhere
			}
			stored = r.Val
			n++
		case *ssa.UnOp, *ssa.DebugRef:
		case *ssa.MakeClosure:
			// every closure capturing the cell must only read it
			for i, bnd := range r.Bindings {
				if bnd != ssa.Value(cell) {
					continue
				}
				cf, _ := r.Fn.(*ssa.Function)
				if cf == nil || i >= len(cf.FreeVars) {
					return nil
				}
				for _, u := range *cf.FreeVars[i].Referrers() {
					if uo, ok := u.(*ssa.UnOp); !ok || uo.Op != token.MUL {
						if _, isDbg := u.(*ssa.DebugRef); !isDbg {
							return nil
						}
					}
				}
			}
		default:
			return nil
		}
	}
	if n != 1 {
		return nil
	}
	return stored
}

// lastWholeStore: the value of the latest whole-variable store to cell that precedes the load on
// the explored path (nil when there is none or when element writes intervene).
func lastWholeStore(cell *ssa.Alloc, load ssa.Instruction) ssa.Value {
	var best *ssa.Store
	for _, ref := range *cell.Referrers() {
		switch x := ref.(type) {
		case *ssa.Store:
			if x.Addr != ssa.Value(cell) || !onPath(x) || curPath.seq[x] >= curPath.seq[load] {
				continue
			}
			if best == nil || curPath.seq[x] > curPath.seq[best] {
				best = x
			}
		case *ssa.IndexAddr, *ssa.FieldAddr:
			// element writes: give up if any is on the path before the load
			for _, r2 := range *x.(ssa.Value).Referrers() {
				if st, ok := r2.(*ssa.Store); ok && onPath(st) && curPath.seq[st] < curPath.seq[load] {
					return nil
				}
			}
		}
	}
	if best == nil || !layoutDominates(best, load) {
		return nil
	}
	if k, ok := best.Val.(*ssa.Const); ok && k.Value == nil {
		return nil
	}
	return best.Val
}

// helperLayout describes result #idx of a call to a module function by the layout of what the
// function returns, with the callee's parameters replaced by the caller's arguments. ok is false
// when the callee is not a module function with a single value-returning exit.
func (c *Ctx) helperLayout(call *ssa.Call, idx int, at ssa.Instruction, d int) ([]seg, *layoutErr, bool) {
	g := call.Call.StaticCallee()
	if g == nil || len(g.Blocks) == 0 || g.Pkg == nil || !strings.HasPrefix(g.Pkg.Pkg.Path(), modPath) || d > 6 {
		return nil, nil, false
	}
	if idx >= g.Signature.Results().Len() || !isByteSlice(g.Signature.Results().At(idx).Type()) {
		return nil, nil, false
	}
	var ret *ssa.Return
	several := false
	for _, b := range g.Blocks {
		r, ok := b.Instrs[len(b.Instrs)-1].(*ssa.Return)
		if !ok {
			continue
		}
		if n := len(r.Results); n > 1 && isErrorType(r.Results[n-1].Type()) {
			e := unspill(r.Results[n-1])
			if !isNilConst(e) && definitelyNonNil(e) {
				continue
			}
		}
		if isNilConst(unspill(r.Results[idx])) {
			continue
		}
		if ret != nil {
			several = true
		}
		ret = r
	}
	if ret == nil {
		return nil, nil, false
	}
	var inner []seg
	var err *layoutErr
	if several {
		// several exits: under the assumptions of the caller's path exploration the helper may
		// still take one of them only (a role switch); every path it takes must then agree
		if layoutAssume == nil {
			return nil, &layoutErr{"helper " + short(g) + " has several value-returning exits"}, true
		}
		w := (&Walk{Fn: g, Assume: assumeAll(layoutAssume...)}).FromEntry()
		if w.overflow || len(w.Returns) == 0 {
			return nil, &layoutErr{"helper " + short(g) + " has several value-returning exits"}, true
		}
		seen := ""
		for _, ro := range w.Returns {
			if idx >= len(ro.Raw) {
				return nil, nil, false
			}
			var l []seg
			var e *layoutErr
			oldPhi := phiResolve
			withPath(w, func() { withPhis(ro.RawEnv, func() { l, e = c.LayoutOf(unspill(ro.Raw[idx]), ro.Ret, d+1) }) })
			phiResolve = oldPhi
			if e != nil {
				return nil, e, true
			}
			k := fmt.Sprint(l)
			if seen != "" && k != seen {
				return nil, &layoutErr{"helper " + short(g) + " has several value-returning exits that differ under the assumed role"}, true
			}
			seen, inner = k, l
		}
	} else {
		oldPath, oldPhi := curPath, phiResolve
		curPath, phiResolve = nil, nil
		inner, err = c.LayoutOf(unspill(ret.Results[idx]), ret, d+1)
		curPath, phiResolve = oldPath, oldPhi
		if err != nil {
			// a concatenating helper: acc = init; for _, e := range parts { acc = append(acc, e...) }
			// with parts its variadic parameter: at the call the pieces are the arguments, in order
			if l, ok := c.variadicConcatLayout(g, unspill(ret.Results[idx]), call, ret, d); ok {
				return l, nil, true
			}
			return nil, err, true
		}
	}
	// substitute parameters
	var out []seg
	for _, sg := range inner {
		pi := -1
		for i, p := range g.Params {
			if sg.src == p.Name() {
				pi = i
			}
		}
		if pi < 0 || pi >= len(call.Call.Args) {
			out = append(out, sg)
			continue
		}
		arg := call.Call.Args[pi]
		if sg.vari {
			al, e := c.LayoutOf(arg, call, d+1)
			if e != nil {
				return nil, e, true
			}
			out = append(out, al...)
			continue
		}
		sg.src = srcDesc(arg)
		out = append(out, sg)
	}
	return out, nil, true
}

// variadicConcatLayout: see helperLayout. acc is the value g returns.
func (c *Ctx) variadicConcatLayout(g *ssa.Function, acc ssa.Value, call *ssa.Call, ret *ssa.Return, d int) ([]seg, bool) {
	phi, ok := acc.(*ssa.Phi)
	if !ok || len(phi.Edges) != 2 || !g.Signature.Variadic() || len(g.Params) == 0 {
		return nil, false
	}
	parts := g.Params[len(g.Params)-1]
	var init ssa.Value
	var step *ssa.Call
	for _, e := range phi.Edges {
		if ap, isCall := e.(*ssa.Call); isCall && calleeName(&ap.Call) == "builtin:append" && ap.Call.Args[0] == ssa.Value(phi) {
			step = ap
		} else {
			init = e
		}
	}
	if init == nil || step == nil {
		return nil, false
	}
	// what is appended: an element of the variadic parameter
	ld, ok := step.Call.Args[1].(*ssa.UnOp)
	if !ok {
		return nil, false
	}
	ia, ok := ld.X.(*ssa.IndexAddr)
	if !ok || ia.X != ssa.Value(parts) {
		return nil, false
	}
	// the loop is the range over that parameter: its index is compared with len(parts)
	ranged := false
	if refs := ia.Index.Referrers(); refs != nil {
		for _, ref := range *refs {
			if bo, isBo := ref.(*ssa.BinOp); isBo && bo.Op == token.LSS && bo.X == ia.Index {
				if ln, isLen := bo.Y.(*ssa.Call); isLen && calleeName(&ln.Call) == "builtin:len" && ln.Call.Args[0] == ssa.Value(parts) {
					ranged = true
				}
			}
		}
	}
	if !ranged {
		return nil, false
	}
	// the initial value, in terms of g's parameters, with the arguments written in
	oldPath, oldPhi := curPath, phiResolve
	curPath, phiResolve = nil, nil
	initL, err := c.LayoutOf(init, ret, d+1)
	curPath, phiResolve = oldPath, oldPhi
	if err != nil {
		return nil, false
	}
	var out []seg
	for _, sg := range initL {
		pi := -1
		for i, p := range g.Params {
			if sg.src == p.Name() {
				pi = i
			}
		}
		if pi < 0 || pi >= len(call.Call.Args) {
			out = append(out, sg)
			continue
		}
		if sg.vari {
			al, e := c.LayoutOf(call.Call.Args[pi], call, d+1)
			if e != nil {
				return nil, false
			}
			out = append(out, al...)
			continue
		}
		sg.src = srcDesc(call.Call.Args[pi])
		out = append(out, sg)
	}
	// the variadic arguments at the call: a slice of a local array with one store per index
	va := call.Call.Args[len(g.Params)-1]
	sl, ok := va.(*ssa.Slice)
	if !ok {
		if isNilConst(va) {
			return out, true
		}
		return nil, false
	}
	al, ok := sl.X.(*ssa.Alloc)
	if !ok {
		return nil, false
	}
	pieces := map[int64]ssa.Value{}
	max := int64(-1)
	for _, ref := range *al.Referrers() {
		ia2, isIA := ref.(*ssa.IndexAddr)
		if !isIA {
			continue
		}
		k, isK := constInt(ia2.Index)
		if !isK {
			return nil, false
		}
		for _, r2 := range *ia2.Referrers() {
			if st, isSt := r2.(*ssa.Store); isSt && st.Addr == ssa.Value(ia2) {
				pieces[k] = st.Val
				if k > max {
					max = k
				}
			}
		}
	}
	for i := int64(0); i <= max; i++ {
		pv, has := pieces[i]
		if !has {
			return nil, false
		}
		l, e := c.LayoutOf(pv, call, d+1)
		if e != nil {
			return nil, false
		}
		out = append(out, l...)
	}
	return out, true
}
