package main

import (
	"fmt"
	"go/token"
	"go/types"
	"strings"

	"golang.org/x/tools/go/ssa"
)

const pkgF12 = "internal/flight/flight12"
const pkgF13 = "internal/flight/flight13"

// parserTable12 extracts Flight constant -> parser function from getFlightParser.
func (c *Ctx) parserTable12(r *Report, rule string) map[string]*ssa.Function {
	fn := c.need(r, rule, pkgF12+".getFlightParser")
	if fn == nil {
		return nil
	}
	enum := c.enumConsts(pkgF12, "Flight")
	tbl := switchTable(fn, 0, enum)
	out := map[string]*ssa.Function{}
	for name, ro := range tbl {
		if ro == nil || len(ro.Raw) < 2 {
			r.Unk(rule, "getFlightParser:"+name, "", "no unique return for this flight constant")
			continue
		}
		if ok, isC := constBool(ro.Raw[1]); isC && !ok {
			r.Bad("registry-total", "getFlightParser:"+name, c.ipos(ro.Ret), "flight constant has no parser (ok=false)")
			continue
		}
		f := funcOfValue(ro.Raw[0])
		if f == nil {
			r.Unk(rule, "getFlightParser:"+name, c.ipos(ro.Ret), "parser value is not a function constant")
			continue
		}
		out[name] = f
	}
	return out
}

// pkgClosure returns fn plus all functions of the same package statically
// reachable from it (including closures), bounded depth.
func (c *Ctx) pkgClosure(fn *ssa.Function, depth int) []*ssa.Function {
	seen := map[*ssa.Function]bool{}
	var out []*ssa.Function
	var rec func(f *ssa.Function, d int)
	rec = func(f *ssa.Function, d int) {
		if f == nil || seen[f] || f.Blocks == nil {
			return
		}
		seen[f] = true
		out = append(out, f)
		for _, a := range f.AnonFuncs {
			rec(a, d)
		}
		if d == 0 {
			return
		}
		for _, b := range f.Blocks {
			for _, in := range b.Instrs {
				if ci, ok := in.(ssa.CallInstruction); ok {
					if callee := ci.Common().StaticCallee(); callee != nil && callee.Pkg == fn.Pkg {
						rec(callee, d-1)
					}
				}
			}
		}
	}
	rec(fn, depth)
	return out
}

// pullCallOfMessages: given the map value indexed to obtain a message, find the
// FullPullMap* call that produced it.
func pullCallOfMessages(m ssa.Value) *ssa.Call {
	switch x := m.(type) {
	case *ssa.Field:
		if call, ok := x.X.(*ssa.Call); ok {
			return call
		}
		if u, ok := x.X.(*ssa.UnOp); ok && u.Op == token.MUL {
			if al, ok := u.X.(*ssa.Alloc); ok {
				return callStoredIn(al)
			}
		}
	case *ssa.UnOp:
		if x.Op != token.MUL {
			return nil
		}
		if fa, ok := x.X.(*ssa.FieldAddr); ok {
			if al, ok := fa.X.(*ssa.Alloc); ok {
				return callStoredIn(al)
			}
		}
	case *ssa.Phi:
		for _, e := range x.Edges {
			if c := pullCallOfMessages(e); c != nil {
				return c
			}
		}
	}
	return nil
}

func callStoredIn(al *ssa.Alloc) *ssa.Call {
	var found *ssa.Call
	n := 0
	for _, ref := range *al.Referrers() {
		if st, ok := ref.(*ssa.Store); ok && st.Addr == al {
			n++
			if call, ok := st.Val.(*ssa.Call); ok {
				found = call
			}
		}
	}
	if n == 1 {
		return found
	}
	return nil
}

type finishedSite struct {
	fn     *ssa.Function
	ta     *ssa.TypeAssert
	pull   *ssa.Call
	repull bool
	rule   PullRule
	// set when the pull and the assertion sit in a helper that hands the message back: the
	// call of that helper in fn, and the message there
	via *ssa.Call
	val ssa.Value
}

// at: where the site is, for a report.
func (fs finishedSite) at() ssa.Instruction {
	if fs.via != nil {
		return fs.via
	}
	return fs.ta
}

// isParser12: the (Flight, *Alert, error) shape of a flight parser.
func isParser12(fn *ssa.Function) bool {
	res := fn.Signature.Results()
	return res.Len() == 3 && strings.HasSuffix(namedOrType(res.At(0).Type()), ".Flight")
}

// liftFinishedSite: a site in a helper that is not a parser itself and returns the message is
// judged where the helper is called: one site per call, with the start of the pull taken from
// the call's argument when the helper pulls at a sequence it is handed.
func (c *Ctx) liftFinishedSite(fs finishedSite, d int) []finishedSite {
	g := fs.fn
	if isParser12(g) || d > 1 {
		return []finishedSite{fs}
	}
	var msg ssa.Value = fs.ta
	if fs.val != nil {
		msg = fs.val
	} else if fs.ta.CommaOk {
		msg = nil
		for _, ref := range *fs.ta.Referrers() {
			if ex, ok := ref.(*ssa.Extract); ok && ex.Index == 0 {
				msg = ex
			}
		}
	}
	idx := -1
	for _, b := range g.Blocks {
		if ret, ok := b.Instrs[len(b.Instrs)-1].(*ssa.Return); ok {
			for i, rv := range ret.Results {
				if msg != nil && sameValue(unspill(rv), msg) {
					idx = i
				}
				for _, l := range c.Origins(unspill(rv), 0) {
					if msg != nil && sameValue(l, msg) {
						idx = i
					}
				}
			}
		}
	}
	sites, closed := c.staticCallers(g)
	if idx < 0 || !closed || len(sites) == 0 {
		return []finishedSite{fs}
	}
	var out []finishedSite
	for _, cs := range sites {
		call, ok := cs.Call.(*ssa.Call)
		if !ok {
			return []finishedSite{fs}
		}
		n := fs
		n.fn, n.via = cs.Fn, call
		n.val = resultValue(call, idx)
		if fs.pull != nil {
			if p, isP := callArg(&fs.pull.Call, 0).(*ssa.Parameter); isP && p.Parent() == g {
				if pi := paramIndex(p); pi >= 0 && pi < len(call.Call.Args) {
					bo, isBo := call.Call.Args[pi].(*ssa.BinOp)
					n.repull = isBo && bo.Op == token.SUB
				}
			}
		}
		out = append(out, c.liftFinishedSite(n, d+1)...)
	}
	return out
}

// finishedSites finds every type assertion to *handshake.MessageFinished on a
// message pulled from the cache, in the given functions.
func (c *Ctx) finishedSites(fns []*ssa.Function) []finishedSite {
	var out []finishedSite
	for _, fn := range fns {
		for _, b := range fn.Blocks {
			for _, in := range b.Instrs {
				ta, ok := in.(*ssa.TypeAssert)
				if !ok || namedOf(ta.AssertedType) != "pkg/protocol/handshake.MessageFinished" {
					continue
				}
				lk, ok := ta.X.(*ssa.Lookup)
				if !ok {
					continue
				}
				fs := finishedSite{fn: fn, ta: ta}
				fs.pull = pullCallOfMessages(lk.X)
				if fs.pull != nil {
					start := callArg(&fs.pull.Call, 0)
					if bo, ok := start.(*ssa.BinOp); ok && bo.Op == token.SUB {
						fs.repull = true
					}
					// the variadic rule list is the last argument
					args := fs.pull.Call.Args
					if rl, ok := c.ruleList(args[len(args)-1], 0); ok {
						for _, pr := range rl {
							if pr.Typ == 20 {
								fs.rule = pr
							}
						}
					}
				}
				out = append(out, c.liftFinishedSite(fs, 0)...)
			}
		}
	}
	return out
}

// isSuccessFlightReturn: (Flight, *Alert, error) return that lets the FSM advance:
// non-zero flight and not a definite failure.
func isAdvanceReturn(ret *ssa.Return) bool {
	if len(ret.Results) != 3 {
		return false
	}
	if k, ok := constInt(unspill(ret.Results[0])); ok && k == 0 {
		return false
	}
	return true
}

// canonical DTLS 1.2 Finished transcripts (RFC 5246 7.4.9: all handshake messages
// up to but not including this Finished), keyed by the flight the parser advances to
// after accepting the peer's Finished.
var transcript12 = map[string]string{
	// full handshake, server checks client Finished, then sends Flight6
	"Flight6": "client:ClientHello@E server:ServerHello@E server:Certificate@E server:ServerKeyExchange@E server:CertificateRequest@E server:ServerHelloDone@E client:Certificate@E client:ClientKeyExchange@E client:CertificateVerify@E",
	// full handshake, client checks server Finished, stays in Flight5 (done)
	"Flight5": "client:ClientHello@E server:ServerHello@E server:Certificate@E server:ServerKeyExchange@E server:CertificateRequest@E server:ServerHelloDone@E client:Certificate@E client:ClientKeyExchange@E client:CertificateVerify@E client:Finished@E+1",
	// abbreviated handshake, client checks server Finished, then sends Flight5b
	"Flight5b": "client:ClientHello@E server:ServerHello@E",
	// abbreviated handshake, server checks client Finished, stays in Flight4b (done)
	"Flight4b": "client:ClientHello@E server:ServerHello@E server:Finished@E+1",
}

// fnsOfPkg lists the module functions (with closures) of one package.
func (c *Ctx) fnsOfPkg(rel string) []*ssa.Function {
	p := c.Pkg(rel)
	var out []*ssa.Function
	for _, fn := range c.Fns {
		f := fn
		for f.Parent() != nil {
			f = f.Parent()
		}
		if f.Pkg == p {
			out = append(out, fn)
		}
	}
	return out
}

// ruleFinishedCompare: every first consumption of the peer's Finished in a
// DTLS 1.2 flight parser is followed, on every advancing exit, by a successful
// equality test of its verify_data against PRF(master_secret, role label,
// transcript) with the right role and the canonical transcript.
func ruleFinishedCompare(c *Ctx, r *Report) {
	const rule = "finished-compare"
	first := 0
	for _, fs := range c.finishedSites(c.fnsOfPkg(pkgF12)) {
		r.Sites += len(fs.fn.Blocks)
		key := short(fs.fn)
		if fs.pull == nil {
			r.Unk(rule, key, c.ipos(fs.at()), "cannot relate the Finished message to the cache pull that produced it")
			continue
		}
		if fs.repull {
			r.Note(rule, key, c.ipos(fs.at()), "re-pull below the receive cursor (HandshakeRecvSequence-1): retransmission detector of an already verified Finished, exempt")
			continue
		}
		first++
		c.checkFinishedSite(r, rule, key, fs)
	}
	r.Floor(rule, first, 4)
}

func (c *Ctx) checkFinishedSite(r *Report, rule, key string, fs finishedSite) {
	fn := fs.fn
	var finishedVal ssa.Value = fs.ta
	if fs.val != nil {
		finishedVal = fs.val
	} else if fs.ta.CommaOk {
		finishedVal = nil
		for _, ref := range *fs.ta.Referrers() {
			if ex, ok := ref.(*ssa.Extract); ok && ex.Index == 0 {
				finishedVal = ex
			}
		}
	}
	// equality calls comparing finished.VerifyData with PRF output: in host, where msg is the
	// Finished message
	compareIn := func(host *ssa.Function, msg ssa.Value) (eq, prfCall *ssa.Call) {
		for _, ci := range callsIn(host, nameIs("bytes.Equal", "crypto/hmac.Equal", "crypto/subtle.ConstantTimeCompare")) {
			call, ok := ci.(*ssa.Call)
			if !ok {
				continue
			}
			var vdSide, prfSide bool
			var pc *ssa.Call
			for _, a := range call.Call.Args {
				for _, l := range c.Origins(a, 0) {
					if o, f, base, ok := fieldLoad(l); ok && o == "pkg/protocol/handshake.MessageFinished" && f == "VerifyData" && msg != nil && sameValue(base, msg) {
						vdSide = true
					}
					if isCallResult(l, nameIs("pkg/crypto/prf.VerifyDataClient", "pkg/crypto/prf.VerifyDataServer")) {
						prfSide = true
						if ex, ok := l.(*ssa.Extract); ok {
							pc = ex.Tuple.(*ssa.Call)
						}
					}
				}
			}
			if vdSide && prfSide {
				eq, prfCall = call, pc
			}
		}
		return eq, prfCall
	}
	eq, prfCall := compareIn(fn, finishedVal)
	// ... or in a helper of the package that is handed the message and answers with an error
	// unless the comparison succeeded: the helper's call then stands for the comparison
	var guard ssa.Instruction = eq
	var guardVal ssa.Value = eq
	var verifier *ssa.Call
	if eq == nil && finishedVal != nil {
		for _, hc := range findCalls(fn, func(string) bool { return true }) {
			h := hc.Call.StaticCallee()
			if h == nil || h.Pkg != fn.Pkg || len(h.Blocks) == 0 || errResult(hc) == nil {
				continue
			}
			for i, a := range hc.Call.Args {
				if !sameValue(a, finishedVal) || i >= len(h.Params) {
					continue
				}
				heq, hprf := compareIn(h, h.Params[i])
				if heq == nil {
					continue
				}
				// every return of the helper that may carry a nil error follows the comparison
				// having succeeded
				faithful := true
				for _, b := range h.Blocks {
					ret, isRet := b.Instrs[len(b.Instrs)-1].(*ssa.Return)
					if !isRet {
						continue
					}
					if g, _ := guardedBy(heq, heq, ret); g {
						continue
					}
					w := (&Walk{Fn: h}).FromEntry()
					for _, ro := range w.Returns {
						last := len(ro.Vals) - 1
						if ro.Ret == ret && !(ro.Vals[last].Kind == 2 && !ro.Vals[last].B) {
							faithful = false
						}
					}
				}
				if !faithful {
					r.Bad(rule, key+":verifier", c.ipos(heq), "the helper that compares the verify_data can return without an error although the comparison failed or was skipped")
					continue
				}
				eq, prfCall, verifier = heq, hprf, hc
				guard, guardVal = hc, errResult(hc)
			}
		}
	}
	if eq == nil {
		r.Bad(rule, key, c.ipos(fs.at()), "the peer's Finished is consumed here (first pull at the receive cursor) but its verify_data is never compared with prf.VerifyData{Client,Server}(...): handshake completes without binding to the transcript")
		return
	}
	// every advancing exit must be guarded by the comparison succeeding
	nExit := 0
	allOK := true
	slots := map[string]bool{}
	for _, b := range fn.Blocks {
		ret, ok := b.Instrs[len(b.Instrs)-1].(*ssa.Return)
		if !ok || !isAdvanceReturn(ret) {
			continue
		}
		// every advancing exit of the parser that consumes the Finished counts, also one taken
		// before the message is looked at (the FSM reads a returned last-receive flight as
		// "handshake complete")
		nExit++
		for _, k := range flightConstsOf(unspill(ret.Results[0]), 0) {
			for name, v := range c.enumConsts(pkgF12, "Flight") {
				if v == k {
					slots[name] = true
				}
			}
		}
		if ok, why := guardedBy(guard, guardVal, ret); !ok {
			allOK = false
			r.Bad(rule, key+":exit", c.ipos(ret), "advancing return not guarded by the verify_data comparison at "+c.ipos(eq)+": "+why)
		}
	}
	if nExit == 0 {
		r.Unk(rule, key, c.ipos(fs.at()), "no advancing exit found after the Finished pull")
		return
	}
	if allOK {
		r.OK(rule, key, c.ipos(eq), fmt.Sprintf("%d advancing exit(s) all dominated by the successful comparison; none reachable when it fails", nExit))
	}
	// role: label must match the sender of the Finished
	want := "pkg/crypto/prf.VerifyDataServer"
	if fs.rule.IsClient {
		want = "pkg/crypto/prf.VerifyDataClient"
	}
	got := calleeName(&prfCall.Call)
	r.Check(got == want, "finished-role", key, c.ipos(prfCall),
		"expected verify_data computed with "+got+" for a Finished pulled with IsClient="+fmt.Sprint(fs.rule.IsClient),
		"Finished pulled with IsClient="+fmt.Sprint(fs.rule.IsClient)+" but expectation computed with "+got+" (wrong role label)")
	// key: master secret
	ms := c.Origins(prfCall.Call.Args[0], 0)
	r.Check(allLeaves(ms, func(v ssa.Value) bool { return isFieldLoad(v, "internal/state.State12", "MasterSecret") }),
		"finished-key", key, c.ipos(prfCall), "PRF keyed by State12.MasterSecret", "PRF secret does not derive from State12.MasterSecret: "+c.describeAll(ms))
	// transcript
	var rules []PullRule
	found := false
	var transcript []ssa.Value
	for _, l := range c.Origins(prfCall.Call.Args[1], 0) {
		// handed to the comparing helper: what the parser passes
		if p, isP := l.(*ssa.Parameter); isP && verifier != nil && p.Parent() == verifier.Call.StaticCallee() {
			if pi := paramIndex(p); pi >= 0 && pi < len(verifier.Call.Args) {
				transcript = append(transcript, c.Origins(verifier.Call.Args[pi], 0)...)
				continue
			}
		}
		transcript = append(transcript, l)
	}
	for _, l := range transcript {
		if call, ok := l.(*ssa.Call); ok && strings.HasSuffix(calleeName(&call.Call), "Cache).PullAndMerge") {
			args := call.Call.Args
			if rl, ok := c.ruleList(args[len(args)-1], 0); ok {
				rules, found = rl, true
			}
		}
	}
	// ... the whole of it: the merged messages reach the PRF uncut
	var cutAt ssa.Instruction
	var uncut func(v ssa.Value, d int)
	seenT := map[ssa.Value]bool{}
	uncut = func(v ssa.Value, d int) {
		if d > 8 || seenT[v] {
			return
		}
		seenT[v] = true
		switch x := cellValue(v).(type) {
		case *ssa.Slice:
			if x.Low != nil || x.High != nil {
				if k, isK := constInt(x.Low); x.High == nil && isK && k == 0 {
					uncut(x.X, d+1)
				} else {
					cutAt = x
				}
				return
			}
			uncut(x.X, d+1)
		case *ssa.Phi:
			for _, e := range x.Edges {
				uncut(e, d+1)
			}
		case *ssa.ChangeType:
			uncut(x.X, d+1)
		case *ssa.Parameter:
			if verifier != nil && x.Parent() == verifier.Call.StaticCallee() {
				if pi := paramIndex(x); pi >= 0 && pi < len(verifier.Call.Args) {
					uncut(verifier.Call.Args[pi], d+1)
				}
			}
		}
	}
	uncut(prfCall.Call.Args[1], 0)
	if cutAt != nil {
		r.Bad("finished-transcript", key+":whole", c.ipos(cutAt), "the expected verify_data is computed over a part of the merged handshake messages only (the transcript is sliced on its way to the PRF)")
	}
	if !found {
		r.Unk("finished-transcript", key, c.ipos(prfCall), "transcript argument is not a resolvable Cache.PullAndMerge rule list")
		return
	}
	if len(slots) != 1 {
		r.Unk("finished-transcript", key, c.ipos(prfCall), fmt.Sprintf("advancing exits return %d distinct flight constants; cannot select the canonical transcript", len(slots)))
		return
	}
	want2, okT := transcript12[sortedKeys(slots)[0]]
	if !okT {
		r.Unk("finished-transcript", key, c.ipos(prfCall), "no canonical transcript known for a parser advancing to "+sortedKeys(slots)[0])
		return
	}
	r.Check(rulesString(rules) == want2, "finished-transcript", key, c.ipos(prfCall), "transcript = "+rulesString(rules),
		"transcript hashed into the expected verify_data differs from RFC 5246 7.4.9 for this point: got ["+rulesString(rules)+"] want ["+want2+"]")
}

// sameValue: a and b denote the same SSA value modulo trivial wrappers.
func sameValue(a, b ssa.Value) bool {
	if a == b {
		return true
	}
	strip := func(v ssa.Value) ssa.Value {
		for {
			switch x := v.(type) {
			case *ssa.ChangeType:
				v = x.X
			case *ssa.Phi:
				if len(x.Edges) == 1 {
					v = x.Edges[0]
				} else {
					return v
				}
			default:
				return v
			}
		}
	}
	return strip(a) == strip(b)
}

// flightConstsOf: the non-zero flight constants a returned value can be, following tail calls
// into module helpers.
func flightConstsOf(v ssa.Value, d int) []int64 {
	if k, ok := constInt(v); ok {
		if k != 0 {
			return []int64{k}
		}
		return nil
	}
	if d > 3 {
		return nil
	}
	var call *ssa.Call
	idx := 0
	switch x := v.(type) {
	case *ssa.Extract:
		call, _ = x.Tuple.(*ssa.Call)
		idx = x.Index
	case *ssa.Call:
		call = x
	case *ssa.Phi:
		var out []int64
		if d > 3 {
			return nil
		}
		for _, e := range x.Edges {
			if e != ssa.Value(x) {
				out = append(out, flightConstsOf(e, d+1)...)
			}
		}
		return out
	}
	if call == nil {
		return nil
	}
	callee := call.Call.StaticCallee()
	if callee == nil || callee.Blocks == nil {
		return nil
	}
	var out []int64
	for _, b := range callee.Blocks {
		if ret, ok := b.Instrs[len(b.Instrs)-1].(*ssa.Return); ok && idx < len(ret.Results) {
			out = append(out, flightConstsOf(unspill(ret.Results[idx]), d+1)...)
		}
	}
	return out
}

// ruleFinished13 (C04, DTLS 1.3): the peer's Finished is checked against
// HMAC(finished_key(peer's handshake traffic secret), hash of the transcript *before* that
// Finished), with a constant-time comparison whose failure is an error, and the Finished message
// enters the transcript only after it verified.
func ruleFinished13(c *Ctx, r *Report) {
	const rule = "finished13"
	hs := "internal/handshake"
	// (a) the comparison itself
	if fn := c.need(r, rule, hs+".verifyFinishedData"); fn != nil {
		r.Sites += len(fn.Blocks)
		okRets := possibleSuccessReturns(fn)
		good := false
		for _, e := range findCalls(fn, nameIs("crypto/hmac.Equal", "crypto/subtle.ConstantTimeCompare", "bytes.Equal")) {
			a, b := e.Call.Args[0], e.Call.Args[1]
			isExp := func(v ssa.Value) bool { return isCallResult(v, nameIs(hs+".finishedVerifyData")) }
			isGot := func(v ssa.Value) bool { p, ok := v.(*ssa.Parameter); return ok && paramIndex(p) == 3 }
			if !((isExp(a) && isGot(b)) || (isExp(b) && isGot(a))) {
				continue
			}
			all := len(okRets) > 0
			for _, ret := range okRets {
				if g, _ := guardedBy(e, e, ret); !g {
					all = false
				}
			}
			// the expectation is computed from this call's hash function, key and transcript hash
			for _, fv := range findCalls(fn, nameIs(hs+".finishedVerifyData")) {
				for i := 0; i < 3; i++ {
					if p, ok := fv.Call.Args[i].(*ssa.Parameter); !ok || paramIndex(p) != i {
						all = false
					}
				}
			}
			if all {
				good = true
			}
		}
		r.Check(good, rule, short(fn), c.pos(fn.Pos()), "verify_data compared with finishedVerifyData(hash, key, transcript hash); nil only if equal", "the received verify_data is not compared with HMAC(finished_key, transcript hash) on every successful path")
	}
	// (b) the transcript hash is the snapshot of the transcript that was passed in
	if fn := c.need(r, rule, hs+".VerifyFinishedDataFromTranscript"); fn != nil {
		r.Sites += len(fn.Blocks)
		good := false
		for _, call := range findCalls(fn, nameIs(hs+".verifyFinishedData")) {
			a := call.Call.Args
			p1, ok1 := a[1].(*ssa.Parameter)
			p3, ok3 := a[3].(*ssa.Parameter)
			snap := false
			for _, l := range c.Origins(a[2], 0) {
				if ex, isEx := l.(*ssa.Extract); isEx {
					if sc, isCall := ex.Tuple.(*ssa.Call); isCall && strings.HasSuffix(calleeName(&sc.Call), "Transcript).SnapshotHash") {
						if p, isP := sc.Call.Args[0].(*ssa.Parameter); isP && paramIndex(p) == 2 {
							snap = true
						}
					}
				}
			}
			good = ok1 && ok3 && paramIndex(p1) == 1 && paramIndex(p3) == 3 && snap
		}
		r.Check(good, rule, short(fn), c.pos(fn.Pos()), "verifyFinishedData(hash, base key, transcript.SnapshotHash(), verify_data)", "the Finished check does not use the snapshot hash of the transcript it was given, the given key or the given verify_data")
	}
	// (c) role: the key is the *sender's* handshake traffic secret
	if fn := c.need(r, rule, hs+".verifyPeerFinished"); fn != nil {
		r.Sites += len(fn.Blocks)
		vcalls := findCalls(fn, nameIs(hs+".VerifyFinishedDataFromTranscript"))
		if len(vcalls) != 1 {
			r.Bad(rule, short(fn), c.pos(fn.Pos()), "expected exactly one VerifyFinishedDataFromTranscript call")
		} else {
			vc := vcalls[0]
			var isClient *ssa.Parameter
			for _, p := range fn.Params {
				if bt, ok := p.Type().Underlying().(*types.Basic); ok && bt.Kind() == types.Bool {
					isClient = p
				}
			}
			for _, role := range []bool{true, false} {
				rl := role
				want := hs + ".ServerHandshakeFinishedBaseKey"
				if rl {
					want = hs + ".ClientHandshakeFinishedBaseKey"
				}
				// which side's base key reaches the verification on the paths of this role; private
				// helpers are followed and their results resolved per path
				sideOf := func(v ssa.Value) string {
					if call, _ := callOfResult(v); call != nil {
						n := calleeName(&call.Call)
						if n == hs+".ClientHandshakeFinishedBaseKey" || n == hs+".ServerHandshakeFinishedBaseKey" {
							return n
						}
					}
					return ""
				}
				helperSide := map[*ssa.Call]string{}
				sides := map[string]bool{}
				var resolve func(v ssa.Value, raw map[*ssa.Phi]ssa.Value) string
				resolve = func(v ssa.Value, raw map[*ssa.Phi]ssa.Value) string {
					v = unspill(resolvePhis(v, raw))
					if sd := sideOf(v); sd != "" {
						return sd
					}
					if call, _ := callOfResult(v); call != nil {
						if sd, ok := helperSide[call]; ok {
							return sd
						}
						return "result of " + calleeName(&call.Call)
					}
					return shapeOf(v, 0)
				}
				w := &Walk{Fn: fn, Follow: followSamePkg(fn), Assume: func(v ssa.Value) (Val, bool) {
					if isClient != nil && v == ssa.Value(isClient) {
						return vBool(rl), true
					}
					return unknown, false
				}}
				w.OnReturn = func(call *ssa.Call, ret *ssa.Return, _ PathState, raw map[*ssa.Phi]ssa.Value) {
					if sideOf(call) != "" {
						return
					}
					for _, res := range ret.Results {
						if _, isB := res.Type().Underlying().(*types.Slice); isB {
							helperSide[call] = resolve(res, raw)
						}
					}
				}
				w.VisitRaw = func(in ssa.Instruction, _ Env, raw map[*ssa.Phi]ssa.Value) bool {
					if in == ssa.Instruction(vc) {
						sides[resolve(vc.Call.Args[1], raw)] = true
					}
					return true
				}
				w.FromEntry()
				got := strings.Join(sortedKeys(sides), ",")
				r.Check(len(sides) == 1 && sides[want], rule, fmt.Sprintf("%s:isClient=%v", short(fn), rl), c.ipos(vc), "key = "+strings.TrimPrefix(got, hs+"."), fmt.Sprintf("a Finished sent by the %s is verified with [%s] (must be exactly the sender's handshake traffic secret)", map[bool]string{true: "client", false: "server"}[rl], got))
			}
			// transcript and verify_data
			pT, okT := vc.Call.Args[2].(*ssa.Parameter)
			okV := isFieldLoad(vc.Call.Args[3], "pkg/protocol/handshake.MessageFinished", "VerifyData")
			r.Check(okT && paramIndex(pT) == 0 && okV, rule, short(fn)+":inputs", c.ipos(vc), "the caller's transcript and the message's VerifyData", "verifyPeerFinished does not check the received VerifyData against the caller's transcript")
		}
	}
	// (d) the base keys are the handshake traffic secrets of their side
	for side, name := range map[string]string{"Client": hs + ".ClientHandshakeFinishedBaseKey", "Server": hs + ".ServerHandshakeFinishedBaseKey"} {
		fn := c.need(r, rule, name)
		if fn == nil {
			continue
		}
		good := false
		for _, ret := range possibleSuccessReturns(fn) {
			v := unspill(ret.(*ssa.Return).Results[0])
			var ls []ssa.Value
			for _, l := range c.OriginsThrough(v, 0) {
				if !isNilConst(l) { // the nil key of a helper's error exit
					ls = append(ls, l)
				}
			}
			good = allLeaves(ls, func(l ssa.Value) bool {
				return strings.HasSuffix(shapeOf(l, 0), "KeySchedule.HandshakeTraffic."+side)
			})
		}
		r.Check(good, rule, short(fn), c.pos(fn.Pos()), "returns KeySchedule.HandshakeTraffic."+side, "the "+side+" Finished base key is not the "+side+" handshake traffic secret")
	}
	// (e) order in the flight processor: verify first, then append the Finished to the transcript
	if fn := c.need(r, rule, "(*"+hs+".protectedHandshakeFlight).processFinished"); fn != nil {
		r.Sites += len(fn.Blocks)
		ver := findCalls(fn, nameIs(hs+".verifyPeerFinished"))
		var apps []*ssa.Call
		for _, u := range c.unitFuncs(fn) {
			apps = append(apps, findCalls(u, nameIs(hs+".appendParsedInboundHandshake", hs+".appendHandshake"))...)
		}
		appHere := callsReached(fn, followSamePkg(fn), func(cl *ssa.Call) bool {
			n := calleeName(&cl.Call)
			return n == hs+".appendParsedInboundHandshake" || n == hs+".appendHandshake"
		})
		if len(ver) != 1 || len(appHere) == 0 {
			r.Unk(rule, short(fn), c.pos(fn.Pos()), "expected one verifyPeerFinished call and a transcript append")
		} else {
			// no transcript append is reachable before the verification succeeded
			w := &Walk{Fn: fn, Follow: followSamePkg(fn), Visit: func(in ssa.Instruction, _ Env) bool { return in != ssa.Instruction(ver[0]) }}
			w.FromEntry()
			early := false
			for _, a := range appHere {
				if w.Reached[a] {
					early = true
				}
			}
			wf := &Walk{Fn: fn, Follow: followSamePkg(fn), Assume: failAssumption(errResult(ver[0]))}
			wf.FromEntry()
			afterFail := false
			for _, a := range appHere {
				if wf.Reached[a] {
					afterFail = true
				}
			}
			r.Check(!early && !afterFail, rule, short(fn)+":order", c.ipos(ver[0]), "the Finished is appended to the transcript only after it verified (so it is verified over the transcript without itself)", "the Finished message can enter the transcript before or without its own verification")
			_ = apps
		}
	}
}
