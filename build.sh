#!/bin/sh
# Builds /verif/bin/dtlsvet from /verif/tool, offline, with the pre-installed go1.26.8 toolchain.
set -e
cd "$(dirname "$0")/tool"
unset GOWORK GOSUMDB
export GOFLAGS=-mod=mod GOPROXY=off GOTOOLCHAIN=local PATH=/opt/veriftools/go1.26.8/bin:$PATH
mkdir -p ../bin
go build -o ../bin/dtlsvet .
