#!/bin/sh
# validates MANIFEST.json and every evidence file against the schemas
python3-vt - <<'PY'
import json,jsonschema,glob,sys
jsonschema.validate(json.load(open('/verif/MANIFEST.json')), json.load(open('/root/.vp/MANIFEST.schema.json')))
es=json.load(open('/root/.vp/EVIDENCE.schema.json'))
for f in sorted(glob.glob('/verif/evidence/C*.json')):
    jsonschema.validate(json.load(open(f)), es)
print('manifest and', len(glob.glob('/verif/evidence/C*.json')), 'evidence files valid')
PY
