#!/usr/bin/env python3
"""Regenerates /verif/MANIFEST.json from the per-property table below.
A property appears under `checks` only when dtlsvet has rules registered for it
(`dtlsvet -registered`); everything else is listed under not_applicable with its reason."""
import json, subprocess, os, sys

V = os.path.dirname(os.path.abspath(__file__))

BASELINE_OFF = ("cd /repo && GOFLAGS=-mod=mod GOPROXY=off go build ./... && "
                "GOFLAGS=-mod=mod GOPROXY=off go test -vet=off -count=1 -timeout 25m ./...")

# id -> (claim text, what is not decided, technique)
P = {
 "C01": ("Structural necessary conditions of handshake agreement: client/server role mirror of every key-derivation call (randoms, isClient flag, Finished label), session-hash rule list equals the CertificateVerify transcript, negotiated values committed only after the peer hello was validated, peer chain stored only from the peer's Certificate message, snapshot field completeness; the committed SRTP decision equals what the (hook-rewritable) ServerHello carries; ShouldWrapCID is exactly the negotiated state. Also: response extensions checked element by element; the client records an ALPN selection only if it offered it.",
         "Agreement over the configuration product and delivery schedules; byte equality of exported keying material; that data then flows.",
         "SSA provenance (def-use slicing) + dominance + table extraction"),
 "C02": ("Recoverability structure only: retransmit flags of the generator tables, non-retransmitted flights regenerable via the previous flight's parser, records one epoch ahead are queued and replayed after every read-key installation; the waiting state keeps one timer across non-advancing datagrams; tracked DTLS 1.3 fragments remember their own offset/length. Also: the state machine and the reader run under contexts rooted at context.Background() (not the Handshake caller's); a cache lookup never replaces a chosen entry by one of the same message sequence (retransmitted copies do not change the transcript); a flight parser never turns one of its own equality guards on state around before a keep-reading exit (re-entrancy per datagram). Also: CertificateVerify can encode every scheme the handshake selects. Also: dual-stack first flight retransmitted; DTLS 1.3 cookie request re-sent on a repeated ClientHello.",
         "Liveness itself: completion and its latency under every fault mask are runtime quantities.",
         "switch-table extraction + must-pass-through (dominance) on SSA"),
 "C03": ("Every accepting path passes the credential checks: client verifies ServerKeyExchange signature and chain before deriving keys (must-pass-through, control-dependence whitelist); server client-auth policy decision table extracted exhaustively over ClientAuth x certificate presence x verified flag; DTLS 1.3 Certificate/CertificateVerify/Finished flags. Also: for every value of the declared signature algorithm only the matching primitive (ECDSA, Ed25519, RSA PKCS1, RSA-PSS) is reachable from VerifyKeySignature / VerifyCertificateVerify, and every digest-taking primitive is guarded by a non-empty-digest check; the DTLS 1.3 state machine can declare the handshake finished by sending or by acknowledgement only in the last send flight (client only) and after a parsed flight only on the server staying in the last receive flight; a session-store miss stays a miss through the configuration adapter.",
         "Correctness of x509/ECDSA/RSA verification (library); expiry/time.",
         "must-pass-through + finite decision-table extraction over SSA CFG"),
 "C04": ("Every first consumption of the peer's Finished in a DTLS 1.2 flight parser is followed on every advancing exit by a successful equality test of verify_data against PRF(master secret, role label, canonical transcript); DTLS 1.3 success exits dominated by verifyPeerFinished, whose comparison, transcript snapshot, per-role base key (sender's handshake traffic secret, private helpers followed) and verify-before-append order are checked; second ClientHello validated against the first; the cookie-echoing ClientHello (1.2) and the HelloRetryRequest answer (1.3) are byte-compared with the first ClientHello around the cookie / in front of the extensions. Also: every advancing exit of a Finished-consuming parser counts, also one taken before the message is looked at; DTLS 1.3 completion table as in C03. Also: pinned extensions of the two ClientHellos compared by presence and bytes. Also: extension-borne parameters re-derived from the validated second ClientHello; downgrade sentinel set and checked.",
         "That every byte mutation changes the hash (cryptographic).",
         "must-pass-through with failure-assumption path exploration + rule-list table comparison"),
 "C05": ("Receive-path ordering: replay check before decrypt, accept-closure invoked only by consumers of authenticated records, CID presence/equality checks on every decrypt-success path, no alert/emit reachable from the prepare/decrypt path, epoch-0 application data refused, AAD reads every header field; DTLS 1.3 open(): nonce/ciphertext/additional-data provenance, result only after a successful AEAD Open, full comparison of the unmasked on-wire sequence bits with the reconstructed number. Also: the in-repository CCM authenticates the additional data in two pieces that tile it exactly (continuation starts at the number of bytes the first block took).",
         "Payload equality (AEAD correctness is the library's); replay-window semantics.",
         "dominance ordering + who-may-call + call-graph reachability + field-read sets"),
 "C06": ("No delivery path bypasses the replay detector; window argument derives from the configured value; one detector per epoch; DTLS 1.3 highest-accepted sequence written only inside the accept closure; the commit function handed to record consumers marks the window on every path and reports the detector's answer; DTLS 1.3 record-number reconstruction has half-window thresholds and whole-window moves. Also: with a record epoch beyond the current read epoch no path of the DTLS 1.2 prepare function (helpers followed) reaches the construction of a replay detector; every delivery (payload into Conn.decrypted, reassembled handshake message into the handshake cache) is dominated by the invocation of the commit closure, in its function or at every call site of its private helper. Also: stale-epoch records never newest; the export carries the receive position.",
         "Window semantics (pion/transport replaydetector, outside the repository); arrival-order quantification.",
         "who-may-call + provenance slicing"),
 "C07": ("Packet-literal discipline (ShouldEncrypt / epoch on every secret-carrying flight.Packet), Write reaches the record writer only after Handshake(), encrypted branch output flows only through Encrypt/seal, exporter secret provenance per State constructor; packets re-built around another packet's record inherit its protection flags; Write reads the connection state only after Handshake(). Also: KeyUpdate successor-secret rules and the single-allocator rule (shared with C20 / C09): a key or nonce reuse is a confidentiality break. Also: DTLS 1.3 exporter = RFC 8446 7.5 over the exporter master secret.",
         "Cryptographic secrecy; interleavings of Write with Close.",
         "composite-literal extraction + dominance + provenance slicing"),
 "C08": ("Panic-freedom classes (index/slice bounds by a linear-inequality abstract interpreter with Fourier-Motzkin entailment, nil map-element dereference, unchecked type assertion, explicit panic) on everything reachable from the network entry points; guarded growth of the two named buffers; decode errors mapped to drop; every error the datagram unpackers can return is mapped to drop-and-continue by the read loop. Also: detector-table growth bounded against forged epochs (shared with C06); the waiting state arms its timer once (shared with C17); the read loop closes the connection on the close-and-stop verdict; results of nil-returning lookups (ForID and friends) are compared with nil before use.",
         "General deadlock freedom, allocation volume, CPU; bounds inside std/x-crypto.",
         "abstract interpretation (linear inequalities) over SSA + call-graph reachability"),
 "C09": ("Single allocator of record sequence numbers, no other writer of the counter, every caller holds Conn.lock and the emit roots hold writeLock through the write, the allocated number is the number stored in every header marshalled/encrypted afterwards, overflow check on the allocator result, nonce dependency set; DTLS 1.3 nonce = private copy of the IV XOR the big-endian allocated number over the last 8 bytes; ConnectionState never serves a cached snapshot (the exported counter is live). Also: the DTLS 1.2 explicit nonce is the 8-byte big-endian epoch||sequence of the record header, written at offset 4 after the 4-byte salt, for every header layout.",
         "Atomicity semantics of sync/atomic, scheduler behaviour.",
         "who-may-write + lockset + SSA provenance"),
 "C10": ("Layouts, labels and constants extracted from the encoders and compared with tables transcribed from the RFCs: PRF label constants and seed order, key-block partition order, per-suite key/IV/MAC lengths, AAD and CBC MAC layouts (with and without CID), DTLS 1.3 HkdfLabel structure, label-per-derivation table, Early/Handshake/Master extraction chain, Finished MAC, CertificateVerify input constants, record nonce, AEAD inputs of seal/open, record-number mask generation and application; per-suite PRF hash for the key-block expansion (through helper parameters and promoted methods) and HashFunc(). Also: CCM additional-data tiling (shared with C05).",
         "P_hash iteration and primitive internals (HMAC/HKDF/AES/CCM).",
         "symbolic byte-layout extraction on SSA + constant tables"),
 "C11": ("Provenance of every committed choice: cipher suite only from FindMatchingCipherSuite over local list, version only from SelectVersion, EMS Require decision table, unsolicited-extension guards; list searches over (element, captured value of the same type) are whole-value equality. Also: the declared (hash, signature) pair of a peer's handshake signature is verified only if it matched an element of cfg.LocalSignatureSchemes (no other list counts); the server's suite list is filtered by the certificate HandshakeConfig.GetCertificate presents, the result replaces LocalCipherSuites, and a server cannot start a handshake on a path that skipped the filter. Also: the response-extension check visits every element; without a certificate-specific list the chain is held to cfg.LocalSignatureSchemes; the client checks the peer's ALPN selection and ServerKeyExchange group against its own lists; an endpoint's own signature scheme is selected within cfg.LocalSignatureSchemes; each flight package that records the ALPN offer selects from it; the version selector examines the whole list of the peer.",
         "The full configuration product.",
         "only-from provenance + decision tables"),
 "C12": ("Sender fragment header provenance (offset = running sum, length = len(fragment)), Pop returns non-nil only after the completeness guards and is the only path that deletes the entry and advances the cursor, single consumer; handshake header wire layout; the reassembly buffer is drained after every successful push. Also: advancing the delivery cursor discards only messages strictly before the new cursor. Also: reassembly by coverage (appended bytes = fragment.data[position - offset:], selected fragment starts at or before the position and reaches beyond it, uncovered position yields nil), a stored offset is replaced only by a longer fragment, overlapping ranges are surfaced.",
         "Byte-exact reassembly over all partitions and permutations.",
         "SSA provenance + must-pass-through"),
 "C13": ("Cookie flights flagged non-retransmittable in both generator tables; their generators emit exactly one HelloVerifyRequest/HelloRetryRequest; flight0Parse cannot yield the certificate flight without skip-verify; the second-hello parser's success is dominated by the checked cookie/body validation with the cookie argument derived from state; second ClientHello byte-compared with the first; session-store adapter preserves a miss. Also: with the state machine in the non-retransmittable (cookie) flight and its retransmit flag false, no handler other than the preparation of a fresh flight can produce StateSending. Also: pinned extensions (connection_id, use_srtp) compared by presence and bytes; no public-key operation before the cookie is validated; a wake-up without a ClientHello sends no cookie request (DTLS 1.3; DTLS 1.2 fallback is a known finding). Also: cookie request re-sent only for a repeated handshake message of the peer.",
         "Datagram sizes and timing.",
         "switch-table extraction + decision tables + must-pass-through"),
 "C14": ("Finished comparison on both abbreviated paths, resumed master secret provenance (store lookup keyed by the offered ID), fresh randoms/CIDs on every path of the hello generators, fatal alert deletes the session before the alert is written, client certificate clears the session ID; session-store adapter preserves a miss; only the full-handshake parsers write the store. Also: parser re-entrancy (shared with C02): the client adopts the server's new session ID only after the whole flight arrived.",
         "Store contents over histories; loss patterns.",
         "must-pass-through + provenance + decision table"),
 "C15": ("CID checks on receive (with C05), CID wrapping flags on every protected packet literal, Conn.rAddr has a single guarded writer, WriteToContext call sites dominated by the amplification reserve, Reserve factor constant; the commit function reports the detector's newest-record answer (gate for path challenges). Also: what generateState takes out of a slot of state.Common (connection IDs, RRC flag, epochs ...) generateInternalState puts back into that same slot from the State field of that name only. Also: a record of a left-behind epoch is never the newest.",
         "Timing, racing paths, listener map behaviour.",
         "who-may-write + control dependence + dominance"),
 "C16": ("Lock-acquisition order graph acyclic; every blocking channel operation has a cancellation alternative; single close site per channel; close()/close_notify decision table; the write-path context helpers return the context that a watcher on Conn.closed cancels, on every path. Also: a function that builds a close-aware context hands that context to every context-taking call after it; the read loop always closes on the close-and-stop verdict; FSM and reader contexts are rooted at Background. Also: CID wrapping implies encryption on every packet literal; Close interruptions reported as ErrConnClosed; no uncancellable context on the close path.",
         "Data-race freedom and deadlock freedom over interleavings; goroutine counts.",
         "lock-order graph + select-case enumeration + who-may-close"),
 "C17": ("handleRetransmitTimeout decision table and constants (doubling, 60 s cap, backoff disable), interval writers enumerated, reset store control-dependent only on non-retransmitted input, cookie flights never timer-sent; the waiting state keeps one retransmission timer (never re-armed by non-advancing datagrams). Also: the per-datagram summary flags (retransmit, containsHandshake) are monotone over the records of a datagram. Also: the doubler is called only under a timer select case; the pre-state-machine wait loop retransmits on a doubled, capped interval.",
         "Actual intervals and datagram counts.",
         "decision-table extraction + who-may-write + control dependence"),
 "C18": ("Marshal/Unmarshal field symmetry per codec type, registries cover every message/content/extension implementer, decoded lengths that guard must also bound the following slice, datagram unpackers advance by exactly the declared length; decoder loops that run to the end of their buffer consume exactly a declared length; Handshake.Unmarshal decodes only whole messages (len-12 == length == fragment_length); unified header size from the parsed header; handshake header wire layout. Also: narrowing of a length to its 8/16-bit wire field is proved lossless wherever the encoder bounds that quantity (linear-inequality engine with accumulator loop invariants), and every narrowing proved on the reviewed tree must stay proved (spec/narrowing_baseline.json); a hook-supplied hello is returned as the freshly decoded canonical copy. Also: the CertificateVerify encoder has a successful exit for every (hash, signature) pair the library offers, including RSA-PSS. Also: declared-region reads proven; empty key material refused; sibling narrowing agreement; record content vs declared length (known finding).",
         "decode(encode(v)) == v and canonical fixed points over values.",
         "field read/write sets + registry exhaustiveness + length-use lint on SSA"),
 "C19": ("Every serializedState field written by serialize and read by deserialize, every State field produced by generateState consumed by generateInternalState, sequence counter carried from and back to the same epoch index, DTLS 1.3 refused at all four entry points; imported integers are taken verbatim; ConnectionState generates its snapshot from the live state; Write reads the state after Handshake(). Also: import mirrors export slot by slot; no function that starts a handshake writes an exported slot on a path that can return success (a resumed connection keeps its negotiated parameters); nil-returning lookups are checked before use (corrupted serialised suite id). Also: resume state consulted for every version range that allows DTLS 1.2; receive position exported and restored.",
         "That the resumed connection interoperates; gob robustness.",
         "field coverage sets + provenance + guard dominance"),
 "C20": ("Write generation installed only by commitLocalKeyUpdate, reached only after the ACK path, under both locks and after validateNextWriteGeneration; read side installs only in handleKeyUpdate after epoch guards; successor derivation label/inputs; candidate epochs bounded by RemoteEpoch before Open; every retained read generation with matching epoch bits is a candidate; an epoch-0 ACK can never pass on a protected record number (decided semantically).",
         "Exactly-once delivery under loss/reordering and concurrency.",
         "who-may-call + lockset + must-pass-through + provenance"),
}

def registered():
    try:
        out = subprocess.run([os.path.join(V, "bin/dtlsvet"), "-registered"], capture_output=True, text=True, check=True).stdout
        return sorted(out.split())
    except Exception as e:
        print("cannot query dtlsvet:", e, file=sys.stderr)
        sys.exit(1)

reg = registered()
checks, na = [], []
for pid in sorted(P):
    claim, notd, tech = P[pid]
    if pid in reg:
        checks.append({
            "property_id": pid,
            "quick_cmd": f"./check.sh {pid} quick",
            "thorough_cmd": f"./check.sh {pid} thorough",
            "evidence_file": f"/verif/evidence/{pid}.json",
            "replay_cmd_template": "cat {path}",
            "engine": "dtlsvet",
            "level_claimed": {
                "category": "other",
                "text": "Static analysis of /repo's source (never executed). Decided: " + claim + " NOT decided (runtime quantities): " + notd,
                "design_ref": f"DESIGN.md section 4, {pid}",
            },
            "level_note": "Sound for the stated structural clauses under: go/types + go/ssa (x/tools v0.50.0) faithfully represent the program; CHA over-approximates calls (no unsafe/reflect/cgo, re-verified on load); rule tables under /verif/spec transcribed from the RFCs; dependencies outside the module are assumed. These clauses are necessary conditions of the property, not the behaviour itself.",
            "technique": "static analysis: " + tech,
        })
    else:
        na.append({"property_id": pid, "reason": "no static check registered yet for this property in this revision (see DESIGN.md section 4 for the structural clauses planned); the behavioural core (" + notd + ") is a runtime quantity that static analysis does not decide"})

m = {
    "version": 1,
    "setup_cmd": "./build.sh",
    "hooks": {
        "guard": "verif",
        "enable": "none needed: the checker reads /repo's source; no instrumentation is compiled into pion/dtls",
        "baseline_off_cmd": BASELINE_OFF,
        "source_commits": [],
        "add_only": True,
    },
    "engines": [{
        "name": "dtlsvet",
        "path": "/verif/tool",
        "serves_properties": [c["property_id"] for c in checks],
        "kind_free_text": "repository-specific static analyser on go/packages + go/ssa: must-pass-through with failure-assumption path exploration, finite decision-table extraction, provenance slicing, who-may-write/call, lockset and lock order, linear-inequality bounds prover, layout and table extraction",
    }],
    "checks": checks,
    "not_applicable": na,
    "notes": "All checks are static (the code under analysis is never run). Level 'other': structural necessary conditions decided soundly; the behavioural quantifiers (schedules, inputs, histories) are not decided and each evidence file says which clauses were. Known genuine defects: /verif/known_findings.json. fix: commits in /repo are listed there as 'fixed:' entries.",
}
json.dump(m, open(os.path.join(V, "MANIFEST.json"), "w"), indent=1)
print("checks:", [c["property_id"] for c in checks], "not_applicable:", [n["property_id"] for n in na])
