#!/bin/sh
# usage: ./check.sh <property id> [quick|thorough]
# Decides the structural clauses of one property on /repo's current working tree (static analysis only).
V="$(cd "$(dirname "$0")" && pwd)"
ID="$1"; TIER="${2:-${VERIF_TIER:-quick}}"
stale=0
[ -x "$V/bin/dtlsvet" ] || stale=1
if [ $stale = 0 ]; then
  for f in "$V"/tool/*.go "$V"/tool/*/*.go "$V"/tool/go.mod; do
    [ -e "$f" ] && [ "$f" -nt "$V/bin/dtlsvet" ] && stale=1
  done
fi
if [ $stale = 1 ]; then "$V/build.sh" || { echo "VIOLATION property=$ID replay=$V/build.sh kind=undecided checker failed to build"; exit 1; }; fi
exec "$V/bin/dtlsvet" -prop "$ID" -tier "$TIER" -repo "${DTLSVET_REPO:-/repo}" -verif "$V"
